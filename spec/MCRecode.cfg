INIT Init
NEXT Next
CONSTANTS ND = 4 NBits = 16
INVARIANTS W4 S5 S7 S3
