----------------------------- MODULE TraceConfigs -----------------------------
(***************************************************************************)
(* C08: all build configurations are observationally identical.            *)
(* The trace is the concatenation of the transcripts produced by the same  *)
(* seed under every configuration: one line = (configuration, input key,   *)
(* observation).  The spec consumes them in order and remembers the        *)
(* observation of every input; a later configuration must repeat it.       *)
(***************************************************************************)
EXTENDS Integers, Sequences, TLC, Json, IOUtils

Tr == ndJsonDeserialize(IOEnv.VERIF_TRACE)
N  == Len(Tr)

VARIABLES l, seen      \* seen: sequence of <<key, value, configuration that defined it>>

TInit == l = 1 /\ seen = << >>

Lookup(key) == IF \E k \in 1..Len(seen) : seen[k][1] = key THEN CHOOSE k \in 1..Len(seen) : seen[k][1] = key ELSE 0

Observe ==
    /\ l <= N
    /\ LET e == Tr[l]  k == Lookup(e.key)
       IN  IF k = 0
           THEN /\ seen' = Append(seen, <<e.key, e.val, e.cfg>>)
                /\ PrintT(<<"EV", l, e.id, "ok", "first", e.cfg>>)
           ELSE /\ seen' = seen
                /\ PrintT(<<"EV", l, e.id, IF seen[k][2] = e.val THEN "ok" ELSE "MISMATCH", e.key, seen[k][3], e.cfg>>)
    /\ l' = l + 1

TSpec == TInit /\ [][Observe]_<<l, seen>>
=============================================================================
