------------------------------ MODULE ApiCases ------------------------------
(* R2: the argument-shape matrix of C13, enumerated by TLC. *)
EXTENDS Integers, Sequences, SequencesExt, FiniteSets, TLC, Json, IOUtils

Lens == {-1, 0, 1, 31, 32, 33, 63, 64, 65, 96}
\* option classes: style, hash selector, context length, message length
OptClasses == {[style |-> "options", hash |-> 0,   ctxlen |-> 0,   msglen |-> 5],
               [style |-> "options", hash |-> 0,   ctxlen |-> 255, msglen |-> 5],
               [style |-> "options", hash |-> 0,   ctxlen |-> 256, msglen |-> 5],
               [style |-> "options", hash |-> 512, ctxlen |-> 3,   msglen |-> 64],
               [style |-> "options", hash |-> 512, ctxlen |-> 0,   msglen |-> 63],
               [style |-> "options", hash |-> 256, ctxlen |-> 0,   msglen |-> 32],
               [style |-> "hash0",   hash |-> 0,   ctxlen |-> 0,   msglen |-> 0],
               [style |-> "sha512",  hash |-> 512, ctxlen |-> 0,   msglen |-> 64],
               [style |-> "sha512",  hash |-> 512, ctxlen |-> 0,   msglen |-> 65]}
OptionsOnly == {o \in OptClasses : o.style = "options"}

Base == [fn |-> "", seedLen |-> 32, privLen |-> 64, pubLen |-> 32, sigLen |-> 64, scalarLen |-> 32, pointLen |-> 32,
         style |-> "options", hash |-> 0, ctxlen |-> 0, msglen |-> 5, alias |-> "none"]

Aliases == {"none", "msg=sig", "msg=key", "sig=key+msg"}

Cases ==
    {[Base EXCEPT !.fn = "NewKeyFromSeed", !.seedLen = n] : n \in Lens}
    \cup {[Base EXCEPT !.fn = "Sign", !.privLen = n, !.msglen = m] : n \in Lens, m \in {0, 5}}
    \cup {[Base EXCEPT !.fn = "PrivateKey.Sign", !.privLen = n, !.style = o.style, !.hash = o.hash, !.ctxlen = o.ctxlen, !.msglen = o.msglen] :
            n \in Lens, o \in OptClasses}
    \cup {[Base EXCEPT !.fn = "Verify", !.pubLen = p, !.sigLen = s, !.alias = a] : p \in Lens, s \in Lens, a \in Aliases}
    \cup {[Base EXCEPT !.fn = "VerifyWithOptions", !.pubLen = p, !.sigLen = s, !.style = o.style, !.hash = o.hash, !.ctxlen = o.ctxlen, !.msglen = o.msglen] :
            p \in Lens, s \in {-1, 0, 63, 64, 65}, o \in OptionsOnly}
    \cup {[Base EXCEPT !.fn = "X25519", !.scalarLen = a, !.pointLen = b] : a \in Lens, b \in Lens}

ASSUME PrintT(<<"CASES", Cardinality(Cases)>>)
ASSUME ndJsonSerialize(IOEnv.VERIF_CASES, SetToSeq(Cases))
=============================================================================
