------------------------------ MODULE ConcCases ------------------------------
(* R2 for C15: every interleaving of the chunk steps of concurrent VerifyBatch calls, enumerated by TLC and
   replayed against the real code with a gate at every chunk boundary. *)
EXTENDS Integers, Sequences, SequencesExt, FiniteSets, TLC, Json, IOUtils

\* all sequences over 1..n in which client c occurs exactly steps[c] times
Count(s, c) == Cardinality({i \in 1..Len(s) : s[i] = c})
RECURSIVE SumTo(_, _)
SumTo(steps, n) == IF n = 0 THEN 0 ELSE steps[n] + SumTo(steps, n - 1)
Schedules(steps) == LET n == Len(steps)  tot == SumTo(steps, n)
                    IN  {s \in [1..tot -> 1..n] : \A c \in 1..n : Count(s, c) = steps[c]}

Configs == {<<3, 3>>, <<2, 2, 2>>, <<4, 1, 2>>, <<3, 2, 2>>}
Cases == UNION {{[steps |-> st, sched |-> s] : s \in Schedules(st)} : st \in Configs}

ASSUME PrintT(<<"CASES", Cardinality(Cases)>>)
ASSUME ndJsonSerialize(IOEnv.VERIF_CASES, SetToSeq(Cases))
=============================================================================
