------------------------------ MODULE TraceCurve ------------------------------
(***************************************************************************)
(* Trace validation for the curve-level families:                          *)
(*   C10  decode / pack events (lenient decoding rule, canonical encoding) *)
(*   C12  Ed25519 -> X25519 key conversions                                *)
(*   C11  X25519 (fast base-point path = generic ladder = RFC 7748)        *)
(*   C09  8P for strings whose discrete log is unknown                     *)
(* plus two kinds of AUDIT events that are validated as behaviours, one    *)
(* step per scalar bit, so that every intermediate value is a state:       *)
(*   "audit-iso"     the projection claim  Decode(bytes) = [k]B + [t]T8    *)
(*   "audit-ladder"  the RFC 7748 ladder for (scalar, u) gives out         *)
(* All arithmetic is Edwards.tla / Fp.tla (exact, pure TLA+).              *)
(***************************************************************************)
EXTENDS Edwards, Json, TLC, IOUtils

Tr == ndJsonDeserialize(IOEnv.VERIF_TRACE)
N  == Len(Tr)
NB == 16

VARIABLES pc, blk, idx, chk, acc, bit
tvars == <<pc, blk, idx, chk, acc, bit>>

B2N(bs) == FromBytes(bs)

\* ---- decode: the flag is decided by the witness kind, which the spec verifies ----
DecodeChecks(e) ==
    LET w == B2N(e.witness)
        isSq == e.wkind = "sqrt"
    IN  << <<"witness is valid (projection)", TRUE, IF isSq THEN WitnessSquare(e.bytes, w) ELSE WitnessNonSquare(e.bytes, w)>>,
           <<"decodes iff (y^2-1)/(dy^2+1) is a square", isSq, e.ok>> >>
        \o (IF e.ok /\ isSq /\ e.hasPoint
            THEN LET x == B2N(e.x)  y == B2N(e.y)  t == B2N(e.t)  z == B2N(e.z)
                     want == DecodeWith(e.bytes, w)
                     \* UnpackNegativeVartime returns the negative of the decoded point
                     wx == IF e.negative THEN NegP(want.x) ELSE want.x
                 IN  << <<"decoded y = (low 255 bits) mod p", TRUE, Eq(y, want.y)>>,
                        <<"decoded x: on the curve with the parity of bit 255 (either for x = 0)", TRUE, Eq(x, wx) \/ (IsZero(x) /\ IsZero(wx))>>,
                        <<"Z = 1 and T = X Y", TRUE, Eq(z, One) /\ EqP(t, MulP(x, y))>> >>
            ELSE << >>)

\* ---- pack: canonical encoding of a point given in arbitrary (unreduced, Z # 1) representation ----
PackChecks(e) ==
    LET p  == Pt(B2N(e.X), B2N(e.Y), B2N(e.Z), Zero)
        zi == B2N(e.zinv)
    IN  << <<"zinv witness", TRUE, IsInvP(p.z, zi)>>,
           <<"encoding is canonical: y < p in the low 255 bits, top bit = parity of reduced x", EncodeWith(p, zi), e.out>> >>

\* ---- Ed25519 public key -> X25519 ----
EdPubChecks(e) ==
    LET w == B2N(e.witness)   isSq == e.wkind = "sqrt"
        y == YOf(e.bytes)     inv == B2N(e.inv)
    IN  << <<"witness is valid (projection)", TRUE, IF isSq THEN WitnessSquare(e.bytes, w) ELSE WitnessNonSquare(e.bytes, w)>>,
           <<"reports failure exactly for undecodable keys", isSq, e.ok>>,
           <<"the caller's key is not modified", TRUE, e.unchanged>> >>
        \o (IF e.ok /\ isSq
            THEN << <<"inverse witness", TRUE, MontUWitnessOk(y, inv)>>,
                    <<"out = canonical (1+y)/(1-y), 0 when y = 1", ToBytes(MontU(y, inv), 32), e.out>> >>
            ELSE << >>)

EdPrivChecks(e) == << <<"converted private key = clamp(SHA-512(seed)[0..31])", ClampBytes32(e.hs), e.out>>,
                      <<"the key object is unchanged by the conversion", TRUE, e.keyIntact>> >>

\* ---- X25519 ----
AllZero(bs) == \A i \in 1..Len(bs) : bs[i] = 0
XChecks(e) ==
    LET lenOk == e.scalarLen = 32 /\ e.pointLen = 32
        wantErr == ~lenOk \/ AllZero(e.expected)
    IN  << <<"error exactly for bad lengths or an all-zero result", wantErr, e.err>>,
           <<"result = RFC 7748 X25519(scalar, point) (projection; audited by audit-ladder events)",
               IF wantErr THEN << >> ELSE e.expected, IF e.err THEN << >> ELSE e.got>>,
           <<"base-point fast path = generic ladder on the same scalar; array API (ScalarBaseMult / ScalarMult) = the RFC 7748 value", TRUE, e.fastEqGeneric>> >>

\* ---- 8P for a decodable string of unknown discrete log: small order iff 8P = identity ----
Mul8Checks(e) ==
    LET w == B2N(e.witness) IN
    << <<"witness is valid (projection)", TRUE, WitnessSquare(e.bytes, w)>>,
       <<"isSmallOrderVartime = ([8]P is the identity)", IsSmallOrder(DecodeWith(e.bytes, w)), e.got>> >>

Eval(i) ==
    LET e == Tr[i]
    IN  CASE e.op = "decode"   -> DecodeChecks(e)
          [] e.op = "pack"     -> PackChecks(e)
          [] e.op = "edpub2x"  -> EdPubChecks(e)
          [] e.op = "edpriv2x" -> EdPrivChecks(e)
          [] e.op = "x25519"   -> XChecks(e)
          [] e.op = "mul8"     -> Mul8Checks(e)
          [] OTHER -> << <<"unknown op", "", e.op>> >>

IsAudit(i) == Tr[i].op \in {"audit-iso", "audit-ladder"}

Report ==
    /\ pc = "eval"
    /\ LET bad == {k \in 1..Len(chk) : chk[k][2] # chk[k][3]}
       IN  PrintT(<<"EV", idx, Tr[idx].id, IF bad = {} THEN "ok" ELSE "MISMATCH", {chk[k][1] : k \in bad}>>)
    /\ pc' = "checked" /\ UNCHANGED <<blk, idx, chk, acc, bit>>

(***************************************************************************)
(* Audits as behaviours                                                    *)
(***************************************************************************)
\* audit-iso: acc runs the double-and-add of [k]B, one bit per step
StartIso(i) ==
    /\ Tr[i].op = "audit-iso"
    /\ acc' = Identity /\ bit' = BitLen(B2N(Tr[i].k)) - 1 /\ pc' = "iso" /\ chk' = << >>
StepIso ==
    /\ pc = "iso" /\ bit >= 0
    /\ acc' = IF Bit(B2N(Tr[idx].k), bit) = 1 THEN PtAdd(PtDbl(acc), BasePoint) ELSE PtDbl(acc)
    /\ bit' = bit - 1
    /\ UNCHANGED <<pc, blk, idx, chk>>
EndIso ==
    /\ pc = "iso" /\ bit < 0
    /\ LET e == Tr[idx]
           want == PtAdd(acc, ScalarMul(FromInt(e.t), T8Point))
           got  == DecodeWith(e.bytes, B2N(e.witness))
           ok   == WitnessSquare(e.bytes, B2N(e.witness)) /\ PtEq(want, got) /\ OnCurve(got)
       IN  PrintT(<<"EV", idx, e.id, IF ok THEN "ok" ELSE "MISMATCH", "projection audit: Decode(bytes) = [k]B + [t]T8">>)
    /\ pc' = "checked" /\ UNCHANGED <<blk, idx, chk, acc, bit>>

\* audit-ladder: acc = <<x2, z2, x3, z3, swap>>, one ladder step per scalar bit
StartLadder(i) ==
    /\ Tr[i].op = "audit-ladder"
    /\ acc' = <<One, Zero, ReduceP(LowBits(B2N(Tr[i].u), 255)), One, 0>>
    /\ bit' = 254 /\ pc' = "ladder" /\ chk' = << >>
StepLadder ==
    /\ pc = "ladder" /\ bit >= 0
    /\ acc' = LadderOne(ClampScalar(Tr[idx].scalar), ReduceP(LowBits(B2N(Tr[idx].u), 255)), acc, bit)
    /\ bit' = bit - 1
    /\ UNCHANGED <<pc, blk, idx, chk>>
EndLadder ==
    /\ pc = "ladder" /\ bit < 0
    /\ LET e  == Tr[idx]
           r  == Ladder0(acc)
           ok == LadderResultIs1(r, B2N(e.out)) /\ Lt(B2N(e.out), P)
       IN  PrintT(<<"EV", idx, e.id, IF ok THEN "ok" ELSE "MISMATCH", "ladder audit: out = X25519(scalar, u) per RFC 7748">>)
    /\ pc' = "checked" /\ UNCHANGED <<blk, idx, chk, acc, bit>>

TInit == pc = "root" /\ blk = 0 /\ idx = 0 /\ chk = << >> /\ acc = << >> /\ bit = 0
ToBlock == pc = "root" /\ \E b \in 1..NB : b <= N /\ blk' = b /\ pc' = "block" /\ idx' = 0 /\ UNCHANGED <<chk, acc, bit>>
ToEvent == /\ pc = "block"
           /\ \E i \in 1..N :
                /\ ((i - 1) % NB) + 1 = blk /\ Tr[i].op # "note" /\ idx' = i
                /\ \/ ~IsAudit(i) /\ chk' = Eval(i) /\ pc' = "eval" /\ UNCHANGED <<acc, bit>>
                   \/ StartIso(i)
                   \/ StartLadder(i)
           /\ UNCHANGED blk
TNext == ToBlock \/ ToEvent \/ Report \/ StepIso \/ EndIso \/ StepLadder \/ EndLadder
TSpec == TInit /\ [][TNext]_tvars
=============================================================================
