INIT Init
NEXT Next
CONSTANTS Variant = "three_adds"
INVARIANTS NoOverflow
CHECK_DEADLOCK FALSE
