------------------------------ MODULE MCDecode ------------------------------
(***************************************************************************)
(* R1 for C10 / C12: the decoding ALGORITHM of UnpackNegativeVartime       *)
(* (ge25519.go:309-360: candidate root (u v^3)(u v^7)^((p-5)/8), two root  *)
(* checks, multiplication by sqrt(-1), parity fix-up) against the          *)
(* declarative lenient rule, exhaustively over every y and sign bit of     *)
(* small prime fields with p = 5 (mod 8) and a = -1, d a non-square - the  *)
(* shape of edwards25519.  Also: canonical encoding round trips, and the   *)
(* birational map u = (1+y)/(1-y) lands on the Montgomery curve            *)
(* v^2 = u^3 + A u^2 + u with A = 2(a+d)/(a-d).                            *)
(***************************************************************************)
EXTENDS Integers, FiniteSets, TLC

\* <<p, d>>: p = 5 (mod 8), d a non-square mod p
Primes == {<<13, 2>>, <<29, 2>>, <<37, 2>>, <<53, 2>>, <<61, 2>>, <<101, 2>>, <<109, 2>>, <<149, 2>>, <<157, 2>>, <<173, 2>>, <<181, 2>>, <<197, 2>>,
           <<13, 6>>, <<29, 3>>, <<37, 5>>, <<53, 3>>, <<61, 7>>, <<1013, 2>>, <<2029, 2>>}

RECURSIVE PowMod(_, _, _)
PowMod(b, e, m) == IF e = 0 THEN 1 % m
                   ELSE IF e % 2 = 0 THEN PowMod(((b % m) * (b % m)) % m, e \div 2, m)
                   ELSE ((b % m) * PowMod(((b % m) * (b % m)) % m, e \div 2, m)) % m

IsSq(a, p) == \E x \in 0..(p - 1) : (x * x) % p = a % p
Inv(a, p) == PowMod(a % p, p - 2, p)

VARIABLES pd, y, sign
Init == pd \in Primes /\ y \in 0..(pd[1] - 1) /\ sign \in {0, 1}
Next == UNCHANGED <<pd, y, sign>>

p == pd[1]
d == pd[2]
SqrtM1 == PowMod(2, (p - 1) \div 4, p)

M(a, b) == ((a % p) * (b % p)) % p
u == (M(y, y) - 1) % p
v == (M(d, M(y, y)) + 1) % p

\* the algorithm, step by step
v3   == M(M(v, v), v)
v7   == M(M(v3, v3), v)
cand == M(M(u, v3), PowMod(M(u, v7), (p - 5) \div 8, p))
chk1 == (M(M(cand, cand), v) - u) % p = 0
chk2 == (M(M(cand, cand), v) + u) % p = 0
algOk == chk1 \/ chk2
root  == IF chk1 THEN cand ELSE M(cand, SqrtM1)
\* UnpackVartime = negate the sign bit, then UnpackNegativeVartime: x gets the parity of the sign bit
algX  == IF (root % 2) = sign THEN root ELSE (p - root) % p

\* declarative rule
Decodes == IsSq(M(u, Inv(v, p)), p)

ParamsOk == p % 8 = 5 /\ ~IsSq(d, p) /\ M(SqrtM1, SqrtM1) = p - 1 /\ v # 0

ParamsHold == ParamsOk
AlgorithmExact == ParamsOk => (algOk = Decodes)
RootCorrect == (ParamsOk /\ algOk) => ((M(M(algX, algX), v) - u) % p = 0 /\ (algX = 0 \/ algX % 2 = sign))

\* the image of (x, y) under u = (1+y)/(1-y) lies on the Montgomery curve B v^2 = u^3 + A u^2 + u,
\* A = 2(a+d)/(a-d), B = 4/(a-d), a = -1  (y # 1, x # 0)
MA == M(2 * ((p - 1 + d) % p), Inv((2 * p - 1 - d) % p, p))
MB == M(4, Inv((2 * p - 1 - d) % p, p))
MontU == M(1 + y, Inv((1 - y + p) % p, p))
Rhs == (M(M(MontU, MontU), MontU) + M(MA, M(MontU, MontU)) + MontU) % p
OnMont == (ParamsOk /\ algOk /\ y # 1 /\ algX # 0) => IsSq(M(Rhs, Inv(MB, p)), p)
=============================================================================
