INIT Init
NEXT Next
INVARIANT TableTotal
