----------------------------- MODULE TraceVerify -----------------------------
(***************************************************************************)
(* Trace validation for the verification family (C01, C03, C04, C05, C07,  *)
(* C09).  Every line of the ndjson trace is one call made by the Go        *)
(* harness against the real library, logged with the abstract coordinates  *)
(* of its arguments and the real result.  For a "verify" event the spec's  *)
(* pipeline (Verify!PNext) is started on the logged input and runs its     *)
(* internal steps; the behaviour is accepted iff the verdict it reaches is *)
(* the logged one, and in addition equals the declarative predicate.       *)
(*                                                                         *)
(* Events are independent, so the state graph is a forest:                 *)
(*   root -> block b -> event i of block b -> pipeline steps -> checked    *)
(* which lets all TLC workers share the work.  Every event prints exactly  *)
(* one line  <<"EV", index, id, "ok" | "MISMATCH", expected, got>>.        *)
(***************************************************************************)
EXTENDS VerifyExact, Json, TLC, IOUtils

Tr == ndJsonDeserialize(IOEnv.VERIF_TRACE)
N  == Len(Tr)
NB == 64

VARIABLES blk, idx
tvars == <<pc, in, verdict, blk, idx>>

PtOf(j) == [dec |-> j.dec, known |-> j.known, k |-> FromBytes(j.k), t |-> j.t, small |-> j.small]

InputOf(e) == [siglen |-> e.siglen, S |-> FromBytes(e.S), A |-> PtOf(e.A), R |-> PtOf(e.R),
               h |-> FromBytes(e.h), zip |-> e.zip, eq8 |-> e.eq8]

NoInput == [siglen |-> 0, S |-> Zero, A |-> [dec |-> FALSE, known |-> TRUE, k |-> Zero, t |-> 0, small |-> FALSE],
            R |-> [dec |-> FALSE, known |-> TRUE, k |-> Zero, t |-> 0, small |-> FALSE],
            h |-> Zero, zip |-> FALSE, eq8 |-> FALSE]

Report(i, expected, got) ==
    PrintT(<<"EV", i, Tr[i].id, IF expected = got THEN "ok" ELSE "MISMATCH", expected, got>>)

TInit == pc = "root" /\ in = NoInput /\ verdict = "none" /\ blk = 0 /\ idx = 0

ToBlock == /\ pc = "root"
           /\ \E b \in 1..NB : b <= N /\ blk' = b
           /\ pc' = "block" /\ UNCHANGED <<in, verdict, idx>>

\* a verify call: start the spec's pipeline on the logged input
StartVerify(i) ==
    /\ Tr[i].op = "verify"
    /\ in' = InputOf(Tr[i]) /\ pc' = "chk_len_high_decA" /\ verdict' = "none"

\* direct conformance of the unexported scMinimal (ed25519.go:445) with S < L
CheckScMin(i) ==
    /\ Tr[i].op = "scmin"
    /\ LET S == FromBytes(Tr[i].S) IN
         /\ Report(i, xSLtL(S), Tr[i].got)
         /\ Assert(V!ScMinimal(S) = xSLtL(S), <<"spec-internal: ScMinimal # (S<L)", i>>)
    /\ pc' = "checked" /\ UNCHANGED <<in, verdict>>

\* direct conformance of isSmallOrderVartime (undecodable counts as small order)
CheckSmallOrder(i) ==
    /\ Tr[i].op = "smallorder"
    /\ LET pt == PtOf(Tr[i].P) IN Report(i, (~pt.dec) \/ V!SmallOrder(pt), Tr[i].got)
    /\ pc' = "checked" /\ UNCHANGED <<in, verdict>>

ToEvent == /\ pc = "block"
           /\ \E i \in 1..N :
                /\ ((i - 1) % NB) + 1 = blk
                /\ idx' = i
                /\ StartVerify(i) \/ CheckScMin(i) \/ CheckSmallOrder(i)
           /\ UNCHANGED blk

Step == pc \notin {"root", "block", "done", "checked"} /\ V!PNext /\ UNCHANGED <<blk, idx>>

Finish == /\ pc = "done"
          /\ Report(idx, verdict, Tr[idx].got)
          /\ pc' = "checked" /\ UNCHANGED <<in, verdict, blk, idx>>

TNext == ToBlock \/ ToEvent \/ Step \/ Finish
TSpec == TInit /\ [][TNext]_tvars

\* spec-internal consistency on real inputs: the pipeline decides the declarative predicate
PipelineExact == pc = "done" => verdict = V!Accept(in)
ZipRelations  == pc = "done" => (V!ZipWidens /\ V!ZipDiffersOnlyOnSmall)
=============================================================================
