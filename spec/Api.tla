--------------------------------- MODULE Api ---------------------------------
(***************************************************************************)
(* The API contract of the exported functions (C13, C14): for every        *)
(* function and argument shape the outcome class - ordinary return,        *)
(* documented panic, or error - plus the frame condition "no caller-       *)
(* supplied slice is modified", and the coherence of key objects.          *)
(***************************************************************************)
EXTENDS SignSpec

\* argument lengths: -1 stands for a nil slice
LenOf(n) == IF n < 0 THEN 0 ELSE n

OptsRefused(e) == Outcome(e.style, e.hash, e.ctxlen, e.msglen) \in {"errCtx", "errDigest", "errHash"}

\* "return" | "panic" | "error"
ApiOutcome(e) ==
    CASE e.fn = "NewKeyFromSeed"    -> IF LenOf(e.seedLen) = 32 THEN "return" ELSE "panic"
      [] e.fn = "Sign"              -> IF LenOf(e.privLen) = 64 THEN "return" ELSE "panic"
      [] e.fn = "PrivateKey.Sign"   -> IF OptsRefused(e) THEN "error"
                                       ELSE IF LenOf(e.privLen) = 64 THEN "return" ELSE "panic"
      [] e.fn = "Verify"            -> IF LenOf(e.pubLen) = 32 THEN "return" ELSE "panic"
      [] e.fn = "VerifyWithOptions" -> IF OptsRefused(e) THEN "panic"
                                       ELSE IF LenOf(e.pubLen) = 32 THEN "return" ELSE "panic"
      [] e.fn = "VerifyBatch"       -> IF e.ctxlen > MaxCtx \/ e.countMismatch \/ e.entropyFail THEN "error" ELSE "return"
      [] e.fn = "X25519"            -> IF LenOf(e.scalarLen) # 32 \/ LenOf(e.pointLen) # 32 \/ e.lowOrder THEN "error" ELSE "return"
      [] e.fn = "ScalarBaseMult"    -> "return"
      [] e.fn = "EdPublicKeyToX25519" -> "return"
      [] OTHER -> "unknown function"

\* VerifyBatch returns one result per entry
BatchVectorLen(e) == IF ApiOutcome(e) = "return" THEN e.n ELSE 0

(***************************************************************************)
(* Key objects (C14)                                                       *)
(***************************************************************************)
\* GenerateKey(r): io.ReadFull of exactly 32 bytes; the reader's error and no key otherwise
\*   avail  = number of bytes the stream can deliver before EOF / error
GenKeyExpected(avail) ==
    IF avail >= 32 THEN [err |-> FALSE, consumed |-> 32, key |-> TRUE]
                   ELSE [err |-> TRUE,  consumed |-> avail, key |-> FALSE]

\* The sequence of Read calls GenerateKey may issue (io.ReadFull of 32 bytes), as a little state machine over the
\* recorded calls <<requested, returned, failed>>: no call asks for more than the missing bytes; nothing is read once
\* 32 bytes have arrived (an error delivered together with the last byte is dropped); an error before that decides
\* the outcome.  Result: "key" | "error" | "protocol" (a call the contract does not allow).
RECURSIVE ReadFullRun(_, _, _)
ReadFullRun(reads, i, got) ==
    IF got = 32 THEN (IF i > Len(reads) THEN "key" ELSE "protocol: read after the seed was complete")
    ELSE IF i > Len(reads) THEN "protocol: stopped before 32 bytes without an error"
    ELSE LET rq == reads[i][1]  n == reads[i][2]  failed == reads[i][3]
         IN  IF rq < 1 \/ rq > 32 - got THEN "protocol: asked for more than the missing bytes"     \* "reads exactly 32 bytes"
             ELSE IF n < 0 \/ n > rq THEN "protocol: reader misbehaved"
             ELSE IF got + n = 32 THEN ReadFullRun(reads, i + 1, 32)
             ELSE IF failed THEN "error"          \* whatever is read afterwards, the outcome must be the reader's error
             ELSE ReadFullRun(reads, i + 1, got + n)

\* Equal is true exactly for byte-identical keys of the same type
EqualExpected(sameType, aBytes, bBytes) == sameType /\ aBytes = bBytes
=============================================================================
