---------------------------- MODULE ModmLimbsBig ----------------------------
(***************************************************************************)
(* The limb-level transcription of barrett_reduce256_modm (ModmLimbs) at   *)
(* the REAL sizes in BigNat arithmetic, for both scalar layouts: 5 limbs   *)
(* of 56 bits with the 2^264 cut at bit 40 of the top limb, and 9 limbs of *)
(* 30 bits with the cut at bit 24.  TraceNum evaluates it on "Barrett"     *)
(* events: the `verif`-tagged export of barrettReduce called with q1 and   *)
(* r1 chosen INDEPENDENTLY (two random 264-bit numbers, not the two        *)
(* halves of one 512-bit number).  For such operands the result is not     *)
(* determined by "x mod L" - it depends on the truncated product, on where *)
(* q3 is cut out of the columns and on the wrap of the borrow chains - so  *)
(* limb-for-limb agreement shows that the structure ModmLimbs explores at  *)
(* 3 and 4 bits is the structure the code executes (a NOTE on difference). *)
(***************************************************************************)
EXTENDS BigNat

MLM  == <<1005, 3933, 2652, 1585, 2066, 3429, 1948, 2607, 2526, 3567, 20, 0, 0, 0, 0, 0, 0, 0, 0, 0, 0, 1>>      \* L (base-4096 digits)
MLMU == <<795, 705, 778, 3674, 3484, 2686, 809, 134, 349, 98, 2849, 4094, 4095, 4095, 4095, 4095, 4095, 4095, 4095, 4095, 4095, 255>>      \* floor(2^512 / L)
MLNL(ly) == IF ly = "m56" THEN 5 ELSE 9
MLW(ly)  == IF ly = "m56" THEN 56 ELSE 30
MLT(ly)  == IF ly = "m56" THEN 40 ELSE 24          \* bits of the top limb of a 264-bit quantity
MLTR(ly) == MLT(ly) - 8                            \* ... of a 256-bit quantity
MLLimb(v, ly, i) == LowBits(ShiftRight(v, MLW(ly) * i), MLW(ly))
MLLimbs(x) == SubSeq([k \in 1..Len(x) |-> FromBytes(x[k])], 1, Len(x))
MLBytes(v) == SubSeq([k \in 1..Len(v) |-> ToBytes(v[k], 8)], 1, Len(v))

\* column sum SUM_{i + j = col} u_i * v_j, u a constant, v a limb tuple
RECURSIVE MLCol(_, _, _, _, _, _)
MLCol(ly, u, v, col, i, acc) ==
    IF i >= MLNL(ly) THEN acc
    ELSE MLCol(ly, u, v, col, i + 1,
               IF col - i >= 0 /\ col - i < MLNL(ly) THEN Add(acc, Mul(MLLimb(u, ly, i), v[col - i + 1])) ELSE acc)

\* running columns NL-2 .. 2NL-2 of the truncated product mu * q1
RECURSIVE MLQ2(_, _, _, _, _)
MLQ2(ly, q1, col, f, acc) ==
    IF col > 2 * MLNL(ly) - 2 THEN <<acc, f>>
    ELSE LET c == Add(MLCol(ly, MLMU, q1, col, 0, Zero), f) IN MLQ2(ly, q1, col + 1, ShiftRight(c, MLW(ly)), Append(acc, c))
MLQ3(ly, q1) ==
    LET qc == MLQ2(ly, q1, MLNL(ly) - 2, Zero, << >>)
        c  == qc[1]
        n  == MLNL(ly)   w == MLW(ly)   t == MLT(ly)
    IN  SubSeq([k \in 1..n |->
                  Add(LowBits(ShiftRight(c[k + 1], t), w - t),
                      IF k < n THEN ShiftLeft(LowBits(c[k + 2], t), w - t) ELSE ShiftLeft(qc[2], w - t))], 1, n)
RECURSIVE MLR2(_, _, _, _, _)
MLR2(ly, q3, col, f, acc) ==
    IF col > MLNL(ly) - 1 THEN acc
    ELSE LET c == Add(MLCol(ly, MLM, q3, col, 0, Zero), f)
         IN  MLR2(ly, q3, col + 1, ShiftRight(c, MLW(ly)), Append(acc, LowBits(c, IF col = MLNL(ly) - 1 THEN MLT(ly) ELSE MLW(ly))))
\* r - s limb-wise with borrows; the top limb wraps at 2^topBits; returns <<limbs, last borrow>>
RECURSIVE MLSub(_, _, _, _, _, _, _)
MLSub(ly, r, s, i, pb, acc, topBits) ==
    IF i >= MLNL(ly) THEN <<acc, pb>>
    ELSE LET p  == Add(s[i + 1], FromInt(pb))
             b  == IF Lt(r[i + 1], p) THEN 1 ELSE 0
             wr == IF i = MLNL(ly) - 1 THEN topBits ELSE MLW(ly)
         IN  MLSub(ly, r, s, i + 1, b, Append(acc, Sub(Add(r[i + 1], IF b = 1 THEN Pow2(wr) ELSE Zero), p)), topBits)
MLMLimbs(ly) == LET n == MLNL(ly) IN SubSeq([k \in 1..n |-> MLLimb(MLM, ly, k - 1)], 1, n)
MLReduce(ly, r) == LET t == MLSub(ly, r, MLMLimbs(ly), 0, 0, << >>, MLTR(ly)) IN IF t[2] = 1 THEN r ELSE t[1]
MLBarrett(ly, q1, r1) ==
    LET r2 == MLR2(ly, MLQ3(ly, q1), 0, Zero, << >>)
        r  == MLSub(ly, r1, r2, 0, 0, << >>, MLT(ly))[1]
    IN  MLReduce(ly, MLReduce(ly, r))
=============================================================================
