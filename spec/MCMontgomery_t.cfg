INIT Init
NEXT Next
CONSTANTS Q = 109 Dd = 11 NB = 7 Variant = "code"
INVARIANTS LadderIsEdwards Agreement LowOrderRejected
CHECK_DEADLOCK FALSE
