---------------------------------- MODULE CT ----------------------------------
(***************************************************************************)
(* C20 at the design level: the leakage (program counter and address       *)
(* trace) of the secret-handling primitives, and non-interference as a     *)
(* 2-safety property checked by self-composition: TLC enumerates PAIRS of  *)
(* secrets and compares the two leakage traces.                            *)
(*   Select      constant-time table selection (scan all 8 entries of row  *)
(*               pos with equality masks, conditional swap for the sign)   *)
(*               scalarmult_base_choose_niels_ref.go:40-67 / amd64.s       *)
(*   SelectVT    a secret-indexed lookup (what the selector must not be)   *)
(*   Window4     fixed-trip-count recoding loop (modm:519-547)             *)
(*   CmpCT       mask-accumulating comparison (subtle.ConstantTimeCompare) *)
(*   CmpEarly    early-exit comparison (bytes.Equal on private keys)       *)
(***************************************************************************)
EXTENDS Integers, Sequences, FiniteSets

Digits == -8..8       \* secret radix-16 digits
CONSTANTS KeyLen,      \* scaled key length in bytes
          ByteVals     \* scaled byte alphabet

\* leakage events: <<"pc", label>> and <<"mem", address>>
SelectLeak(pos, b) ==
    \* sign and |b| are computed with arithmetic only; every entry of the row is read
    [i \in 1..8 |-> <<"mem", pos * 8 + i>>] \o << <<"pc", "swap-by-mask">>, <<"pc", "neg-by-mask">> >>

SelectVTLeak(pos, b) ==
    IF b = 0 THEN << <<"pc", "zero">> >>
    ELSE << <<"mem", pos * 8 + (IF b < 0 THEN -b ELSE b)>>, <<"pc", IF b < 0 THEN "negate" ELSE "keep">> >>

Window4Leak(nibbles) == [i \in 1..Len(nibbles) |-> <<"pc", "iter">>]

Keys == [1..KeyLen -> ByteVals]

CmpCTLeak(a, b) == [i \in 1..KeyLen |-> <<"mem", i>>]

RECURSIVE EarlyRec(_, _, _)
EarlyRec(a, b, i) == IF i > KeyLen THEN << >>
                     ELSE IF a[i] # b[i] THEN << <<"mem", i>>, <<"pc", "exit">> >>
                     ELSE << <<"mem", i>> >> \o EarlyRec(a, b, i + 1)
CmpEarlyLeak(a, b) == EarlyRec(a, b, 1)

VARIABLES s1, s2     \* two executions that differ only in secrets
Init == s1 \in [d : Digits, k : Keys, k2 : Keys] /\ s2 \in [d : Digits, k : Keys, k2 : Keys]
Next == UNCHANGED <<s1, s2>>

\* non-interference: same public inputs (pos, lengths) => same leakage
SelectNI   == \A pos \in 0..1 : SelectLeak(pos, s1.d) = SelectLeak(pos, s2.d)
CmpCTNI    == CmpCTLeak(s1.k, s1.k2) = CmpCTLeak(s2.k, s2.k2)
\* the two negative controls (TLC must refute them)
SelectVTNI == \A pos \in 0..1 : SelectVTLeak(pos, s1.d) = SelectVTLeak(pos, s2.d)
CmpEarlyNI == CmpEarlyLeak(s1.k, s1.k2) = CmpEarlyLeak(s2.k, s2.k2)
=============================================================================
