INIT Init
NEXT Next
CONSTANTS NL = 4 WE = 3 WO = 2 C = 3 Word = 512 Head2 = 64 SubCarry = 2 Slack = 2 AMode = "all" BMode = "extreme" PairMode = "full" Variant = "code"
INVARIANTS AddSubExact ReduceExact MulExact SquareExact MulIsColumnSum ContractCanonical
CHECK_DEADLOCK FALSE
