------------------------------ MODULE BosCoster ------------------------------
(***************************************************************************)
(* multiScalarmultVartime (batch_verify.go:70-253): the Bos-Coster         *)
(* reduction over a max-heap of scalars with limb-count shrinking, late    *)
(* insertion of the 128-bit scalars and the final double-and-add.          *)
(* One action per loop iteration, emitting what the `verif` heap hook      *)
(* reports at the same point (max1, max2, limbSize, extended).             *)
(*                                                                         *)
(* Scalar and point arithmetic are parameters: MCBosCoster instantiates    *)
(* them with TLC integers (2-bit limbs) and formal points (vectors of      *)
(* coefficients, so that no cancellation can hide an error);               *)
(* TraceBosCoster with BigNat scalars (56- or 30-bit limbs) and points in  *)
(* Z_L x Z_8 coordinates.  Indices are 0-based as in the code; sequences   *)
(* are 1-based, hence the +1.                                              *)
(***************************************************************************)
EXTENDS Integers, Sequences

CONSTANTS
    NLimbs,            \* modm.LimbSize
    Limb128,           \* limb128bits
    SLt(_, _, _),      \* SLt(a, b, ls): a < b compared on limbs 0..ls only   (LessThanVartime)
    SLe(_, _, _),      \*                a <= b on limbs 0..ls                (LessThanOrEqualVartime)
    SSub(_, _, _),     \* SSub(a, b, ls): limbs 0..ls of a - b, higher limbs of a kept (SubVartime)
    SIsZero(_),        \* all limbs zero
    SIsOne(_),
    SLimbIsZero(_, _), \* limb i is zero
    SAtMost128(_),     \* fits in 128 bits                                    (IsAtMost128bitsVartime)
    SLowLimbs(_, _),   \* SLowLimbs(a, n): the value of limbs 0..n of a (what Final reads)
    PAdd(_, _),        \* point addition
    PMul(_, _),        \* PMul(s, P): [s]P   (used for the result of Final and for the sum invariant)
    PZero

VARIABLES scalars, points, heap, size, limbSize, extended, count, pc, max1, max2, hevs, res

hvars == <<scalars, points, heap, size, limbSize, extended, count, pc, max1, max2, hevs, res>>

Sc(h, i) == scalars[h[i + 1] + 1]         \* scalar of the heap slot i (0-based)

Swap(h, a, b) == [h EXCEPT ![a + 1] = h[b + 1], ![b + 1] = h[a + 1]]

\* heapInsertNext: place index `node` at slot `node`, sift up with a full-width comparison
RECURSIVE SiftUpLt(_, _)
SiftUpLt(h, node) ==
    IF node = 0 THEN h
    ELSE LET parent == (node - 1) \div 2
         IN  IF SLt(scalars[h[parent + 1] + 1], scalars[h[node + 1] + 1], NLimbs - 1)
             THEN SiftUpLt(Swap(h, parent, node), parent) ELSE h

InsertNext(h, sz) == SiftUpLt([h EXCEPT ![sz + 1] = sz], sz)

RECURSIVE InsertUpTo(_, _, _)
InsertUpTo(h, sz, target) == IF sz >= target THEN h ELSE InsertUpTo(InsertNext(h, sz), sz + 1, target)

\* heapUpdatedRoot with the NEW scalars sc: sift the root to the bottom, then back up
RECURSIVE SiftDown(_, _, _, _, _, _)
SiftDown(h, sc, parent, node, sz, ls) ==       \* returns <<heap, node>>
    LET childl == (parent * 2) + 1   childr == childl + 1
    IN  IF childr < sz
        THEN LET n == IF SLt(sc[h[childl + 1] + 1], sc[h[childr + 1] + 1], ls) THEN childr ELSE childl
             IN  SiftDown(Swap(h, parent, n), sc, n, n, sz, ls)
        ELSE <<h, node>>

RECURSIVE SiftUpLe(_, _, _, _)
SiftUpLe(h, sc, node, ls) ==
    IF node = 0 THEN h
    ELSE LET parent == (node - 1) \div 2
         IN  IF SLe(sc[h[parent + 1] + 1], sc[h[node + 1] + 1], ls)
             THEN SiftUpLe(Swap(h, parent, node), sc, parent, ls) ELSE h

UpdatedRoot(h, sc, sz, ls) ==
    LET d == SiftDown(h, sc, 0, 1, sz, ls) IN SiftUpLe(d[1], sc, d[2], ls)

\* heapGetTop2 on heap h
Top2(h, ls) == <<h[1], IF SLt(scalars[h[2] + 1], scalars[h[3] + 1], ls) THEN h[3] ELSE h[2]>>

HInit(scs, pts, cnt) ==
    /\ scalars = scs /\ points = pts /\ count = cnt
    /\ heap = [i \in 1..cnt |-> 0] /\ size = 0
    /\ limbSize = NLimbs - 1 /\ extended = FALSE
    /\ pc = "build" /\ max1 = 0 /\ max2 = 0 /\ hevs = << >> /\ res = "none"

\* batch_verify.go:224  heapBuild(heap, ((count+1)/2)|1)
Build ==
    /\ pc = "build"
    /\ LET c0 == ((count + 1) \div 2)
           n  == IF c0 % 2 = 1 THEN c0 ELSE c0 + 1
       IN  /\ heap' = InsertUpTo([heap EXCEPT ![1] = 0], 0, n)
           /\ size' = n
    /\ pc' = "loop"
    /\ UNCHANGED <<scalars, points, limbSize, extended, count, max1, max2, hevs, res>>

\* one iteration of the for loop (:227-250).  The intermediate values are passed through helper
\* operators (It1..It5) rather than LET-bound: TLC re-evaluates a LET name on every reference.
It5(ls, ext, h1, sz1, m1, m2, nsc) ==
    /\ limbSize' = ls
    /\ extended' = (extended \/ ext)
    /\ size' = sz1
    /\ max1' = m1 /\ max2' = m2
    /\ hevs' = Append(hevs, <<0, m1, m2, ls, extended \/ ext>>)
    /\ scalars' = nsc
    /\ points' = [points EXCEPT ![m2 + 1] = PAdd(points[m2 + 1], points[m1 + 1])]
    /\ heap' = UpdatedRoot(h1, nsc, sz1, ls)
    /\ pc' = "loop"

It4(ls, ext, h1, sz1, t1) ==
    It5(ls, ext, h1, sz1, t1[1], t1[2], [scalars EXCEPT ![t1[1] + 1] = SSub(scalars[t1[1] + 1], scalars[t1[2] + 1], ls)])

\* after an extension the two largest are looked up again (with the possibly decremented limb size)
It3(ls, ext, h1, sz1, t) ==
    It4(ls, ext, h1, sz1,
        IF ext THEN <<h1[1], IF SLt(scalars[h1[2] + 1], scalars[h1[3] + 1], ls) THEN h1[3] ELSE h1[2]>> ELSE t)

It2(t, ls, ext) == It3(ls, ext, IF ext THEN InsertUpTo(heap, size, count) ELSE heap, IF ext THEN count ELSE size, t)

It1(t) ==
    IF SIsZero(scalars[t[2] + 1])
    THEN \* only one scalar remaining
         /\ max1' = t[1] /\ max2' = t[2]
         /\ hevs' = Append(hevs, <<1, t[1], t[2], limbSize, extended>>)
         /\ pc' = "final"
         /\ UNCHANGED <<scalars, points, heap, size, limbSize, extended>>
    ELSE It2(t, IF SLimbIsZero(scalars[t[1] + 1], limbSize) THEN limbSize - 1 ELSE limbSize,
             ~extended /\ SAtMost128(scalars[t[1] + 1]))

Iterate ==
    /\ pc = "loop"
    /\ It1(Top2(heap, limbSize))
    /\ UNCHANGED <<count, res>>

\* multiScalarmultVartimeFinal: reads limbs 0..Limb128 of the remaining scalar only
Final ==
    /\ pc = "final"
    /\ LET s == scalars[max1 + 1]
       IN  res' = IF SIsOne(s) THEN points[max1 + 1]
                  ELSE IF SIsZero(s) THEN PZero
                  ELSE PMul(SLowLimbs(s, Limb128), points[max1 + 1])
    /\ pc' = "done"
    /\ UNCHANGED <<scalars, points, heap, size, limbSize, extended, count, max1, max2, hevs>>

HNext == Build \/ Iterate \/ Final

(***************************************************************************)
(* Properties (checked exhaustively on the scaled instance)                *)
(***************************************************************************)
\* not yet inserted scalars
Pending == {i \in 0..(count - 1) : i >= size}

\* the run is "design-inexact" when the loop ends with non-zero scalars that were never
\* inserted, or with a remaining scalar that Final cannot read completely.  This needs
\* randomisers that are zero / scalars that never drop to 128 bits: excluded by C17's
\* "all but a negligible fraction of entropy streams".
Inexact == pc \in {"final", "done"} /\
           ((\E i \in Pending : ~SIsZero(scalars[i + 1])) \/ ~(scalars[max1 + 1] = SLowLimbs(scalars[max1 + 1], Limb128)))

=============================================================================
