------------------------------ MODULE ModmLimbs ------------------------------
(***************************************************************************)
(* R1 for C19: the limb-level structure of internal/modm (modm_64bit.go,    *)
(* 5 limbs of 56 bits; modm_32bit.go is the same scheme with 9 x 30 bits)   *)
(* transcribed with the limb count NL, the limb width W, the byte size B    *)
(* and the number T of bits the top limb holds of a 2^(8(32+1)) = 2^264     *)
(* quantity as parameters:                                                  *)
(*     S2 = W (NL-1) + T   (264)     KB = S2 - B   (256)                     *)
(*     S1 = KB - B         (248)     D  = S1 - W (NL-1) = T - 2B   (24)      *)
(* and checked EXHAUSTIVELY by TLC at scaled sizes (3 limbs of 3 or 4 bits).*)
(* What the abstract HAC 14.42 model (MCBarrett) does not contain and is    *)
(* transcribed here:                                                        *)
(*   - q2 = mu * q1 is a TRUNCATED product: only the columns i + j >= NL-2  *)
(*     are formed (the lowest kept column only for its carry), the columns  *)
(*     below are dropped - q3 may therefore be smaller than HAC's q3;       *)
(*   - q3 and (in Mul) q1 are cut out of the running 128-bit column sums by *)
(*     shift / mask / or (the 40/16 and 24/32 constants of the code);       *)
(*   - r2 = q3 * m is formed in the columns 0..NL-1 only and cut to S2 bits,*)
(*     r = r1 - r2 is a borrow chain whose top limb wraps at 2^T;           *)
(*   - reduce is a borrow chain with the sign-bit comparison lt(a, b) =     *)
(*     (a - b) >> 63 and a masked select; it is applied exactly twice;      *)
(*   - Add carries limb-wise and calls reduce once;                         *)
(*   - Mul forms the full 2 NL - 1 column product and cuts r1 (low S2 bits) *)
(*     and q1 (from bit S1 up) out of it.                                   *)
(* Properties: for EVERY x < 2^(2 KB) (Expand's 64-byte input) the result   *)
(* is x mod m and is below m; the same for Mul on every pair of reduced     *)
(* scalars and for Add; no column sum exceeds the double word.              *)
(***************************************************************************)
EXTENDS Integers, Sequences

CONSTANTS NL, W, T, B, Moduli, WordBits,
          Variant    \* "code", or a deliberately wrong transcription used as a control:
                     \* "onereduce" (a single conditional subtraction), "nocarrycol" (q2 without the carry of column NL-2)
VARIABLES m, hi, lo, pc
M == m

S2 == W * (NL - 1) + T
KB == S2 - B
S1 == KB - B
D  == S1 - W * (NL - 1)
MU == (2 ^ (2 * KB)) \div M
MaskW == (2 ^ W) - 1
DWord == 2 ^ (2 * WordBits)          \* c_hi:c_lo

\* HAC 14.42 needs b^(k-1) <= m < b^k; the cuts need 0 <= D < W and T < W; mu must fit NL limbs
ASSUME /\ D >= 0 /\ D < W /\ T < W /\ T > 0
       /\ \A mm \in Moduli : mm >= 2 ^ (KB - B) /\ mm < 2 ^ KB /\ (2 ^ (2 * KB)) \div mm < 2 ^ (W * NL)

Limb(v, i) == (v \div (2 ^ (W * i))) % (2 ^ W)              \* limb i of a constant (m0.., mu0..)
L(a, i) == a[i + 1]
RECURSIVE ValRec(_, _)
ValRec(a, i) == IF i >= NL THEN 0 ELSE L(a, i) * (2 ^ (W * i)) + ValRec(a, i + 1)
Val(a) == ValRec(a, 0)
ToLimbs(v) == [k \in 1..NL |-> IF k = NL THEN v \div (2 ^ (W * (NL - 1))) ELSE Limb(v, k - 1)]    \* top limb takes the rest

\* column sum SUM_{i + j = col} u_i * v_j over limbs 0..NL-1 (u given as a number, v as limbs or as a number)
RECURSIVE ColNL(_, _, _, _)
ColNL(u, v, col, i) ==        \* u a constant (number), v a limb tuple
    IF i >= NL THEN 0
    ELSE (IF col - i >= 0 /\ col - i < NL THEN Limb(u, i) * L(v, col - i) ELSE 0) + ColNL(u, v, col, i + 1)
RECURSIVE ColLL(_, _, _, _)
ColLL(u, v, col, i) ==        \* both limb tuples
    IF i >= NL THEN 0
    ELSE (IF col - i >= 0 /\ col - i < NL THEN L(u, i) * L(v, col - i) ELSE 0) + ColLL(u, v, col, i + 1)

\* ---- reduce256_modm: t = r - m by a borrow chain (top limb wraps at 2^(KB - W(NL-1))), keep r if it borrowed
TR == KB - W * (NL - 1)
RECURSIVE SubChain(_, _, _, _, _, _)
SubChain(r, s, i, pb, acc, topBits) ==      \* r - s limb-wise; s is a limb tuple; returns <<limbs, last borrow>>
    IF i >= NL THEN <<acc, pb>>
    ELSE LET p  == pb + L(s, i)
             b  == IF L(r, i) < p THEN 1 ELSE 0                 \* lt_modm: (a - b) >> 63, right for a, b < 2^63
             wr == IF i = NL - 1 THEN 2 ^ topBits ELSE 2 ^ W
         IN  SubChain(r, s, i + 1, b, Append(acc, L(r, i) - p + b * wr), topBits)
MLimbs == [k \in 1..NL |-> Limb(M, k - 1)]
Reduce(r) == LET t == SubChain(r, MLimbs, 0, 0, << >>, TR) IN IF t[2] = 1 THEN r ELSE t[1]

\* ---- barrett_reduce256_modm(q1, r1) ----
\* running column sums of the truncated product mu * q1, columns NL-2 .. 2NL-2, each with the carry f of the previous one
RECURSIVE Q2Cols(_, _, _, _)
Q2Cols(q1, col, f, acc) ==
    IF col > 2 * NL - 2 THEN <<acc, f>>
    ELSE LET c == (IF Variant = "nocarrycol" /\ col = NL - 2 THEN 0 ELSE ColNL(MU, q1, col, 0)) + f IN Q2Cols(q1, col + 1, c \div (2 ^ W), Append(acc, c))
\* q3[i] = ((c_{NL-1+i} >> T) & (2^(W-T) - 1)) | ((c_{NL+i} << (W-T)) & mask); the top limb takes the last carry unmasked
Q3(q1) ==
    LET qc == Q2Cols(q1, NL - 2, 0, << >>)
        c  == qc[1]                       \* c[1] = column NL-2 (carry only), c[2] = column NL-1, ...
    IN  [k \in 1..NL |->
            ((c[k + 1] \div (2 ^ T)) % (2 ^ (W - T)))
          + (IF k < NL THEN ((c[k + 2] % (2 ^ T)) * (2 ^ (W - T))) ELSE qc[2] * (2 ^ (W - T)))]
Q2Ok(q1) == \A x \in 1..NL + 1 : Q2Cols(q1, NL - 2, 0, << >>)[1][x] < DWord

\* r2 = q3 * m, columns 0..NL-1, the top one cut to T bits
RECURSIVE R2Cols(_, _, _, _)
R2Cols(q3, col, f, acc) ==
    IF col > NL - 1 THEN acc
    ELSE LET c == ColNL(M, q3, col, 0) + f
         IN  R2Cols(q3, col + 1, c \div (2 ^ W), Append(acc, IF col = NL - 1 THEN c % (2 ^ T) ELSE c % (2 ^ W)))
Barrett(q1, r1) ==
    LET r2 == R2Cols(Q3(q1), 0, 0, << >>)
        r  == SubChain(r1, r2, 0, 0, << >>, T)[1]          \* r[4] = r1[4] - pb + (b << 40)
    IN  IF Variant = "onereduce" THEN Reduce(r) ELSE Reduce(Reduce(r))

\* ---- Expand of a 2 KB-bit string x: r1 = x mod 2^S2, q1 = x >> S1 (skipped when the input is short) ----
R1Of(x) == ToLimbs(x % (2 ^ S2))
Q1Of(x) == ToLimbs(x \div (2 ^ S1))
Expand(x) == Barrett(Q1Of(x), R1Of(x))

\* ---- Add: limb-wise carry, top limb keeps the carry, one reduce ----
RECURSIVE AddChain(_, _, _, _, _)
AddChain(x, y, i, c, acc) ==
    IF i >= NL THEN acc
    ELSE LET v == c + L(x, i) + L(y, i)
         IN  AddChain(x, y, i + 1, v \div (2 ^ W), Append(acc, IF i = NL - 1 THEN v ELSE v % (2 ^ W)))
Add(x, y) == Reduce(AddChain(x, y, 0, 0, << >>))

\* ---- Mul: full product by running columns; r1 = columns 0..NL-1 (top cut to T bits);
\* q1[i] = ((c_{NL-1+i} >> D) & (2^(W-D) - 1)) | ((c_{NL+i} << (W-D)) & mask), the top limb takes the last carry ----
RECURSIVE PCols(_, _, _, _, _)
PCols(x, y, col, f, acc) ==
    IF col > 2 * NL - 2 THEN <<acc, f>>
    ELSE LET c == ColLL(x, y, col, 0) + f IN PCols(x, y, col + 1, c \div (2 ^ W), Append(acc, c))
MulQR(x, y) ==
    LET pcl == PCols(x, y, 0, 0, << >>)
        c  == pcl[1]                       \* c[k] = column k-1
        r1 == [k \in 1..NL |-> IF k = NL THEN c[k] % (2 ^ T) ELSE c[k] % (2 ^ W)]
        q1 == [k \in 1..NL |->
                  ((c[NL - 1 + k] \div (2 ^ D)) % (2 ^ (W - D)))
                + (IF k < NL THEN ((c[NL + k] % (2 ^ D)) * (2 ^ (W - D))) ELSE pcl[2] * (2 ^ (W - D)))]
    IN  <<q1, r1, \A k \in 1..(2 * NL - 1) : c[k] < DWord>>
Mul(x, y) == LET qr == MulQR(x, y) IN Barrett(qr[1], qr[2])

\* ---- exploration: x in two halves so that the workers share it ----
Half == 2 ^ KB
Init == m \in Moduli /\ hi = 0 /\ lo = 0 /\ pc = "start"
Next == \/ pc = "start" /\ hi' \in 0..(Half - 1) /\ lo' = lo /\ pc' = "hi" /\ m' = m
        \/ pc = "hi" /\ lo' \in 0..(Half - 1) /\ hi' = hi /\ pc' = "x" /\ m' = m
X == hi * Half + lo

Canon(r) == \A i \in 0..(NL - 1) : L(r, i) >= 0 /\ L(r, i) < 2 ^ W

\* the cuts reproduce the integers they stand for (q1 = x >> S1 exactly, q3 = truncated product >> S2)
RECURSIVE TruncProd(_, _)
TruncProd(q1, col) == IF col > 2 * NL - 2 THEN 0 ELSE ColNL(MU, q1, col, 0) * (2 ^ (W * (col - (NL - 2)))) + TruncProd(q1, col + 1)

ExpandExact == pc = "x" =>
    LET r == Expand(X) IN Canon(r) /\ Val(r) = X % M /\ Q2Ok(Q1Of(X))
\* q3 as cut out of the columns = the truncated product shifted; and it underestimates the quotient by at most 2
Q3Exact == pc = "x" =>
    LET q1 == Q1Of(X)
        q3 == Val(Q3(q1))
    IN  /\ q3 = TruncProd(q1, NL - 2) \div (2 ^ (S2 - W * (NL - 2)))
        /\ (X \div M) - q3 \in 0..2
\* Mul / Add on reduced operands: (hi, lo) read as two scalars below M
MulAddExact == (pc = "x" /\ hi < M /\ lo < M) =>
    LET x == ToLimbs(hi)  y == ToLimbs(lo)
        qr == MulQR(x, y)
        r == Mul(x, y)
        s == Add(x, y)
    IN  /\ qr[3]
        /\ Val(qr[1]) = (hi * lo) \div (2 ^ S1) /\ Val(qr[2]) = (hi * lo) % (2 ^ S2)
        /\ Canon(r) /\ Val(r) = (hi * lo) % M
        /\ Canon(s) /\ Val(s) = (hi + lo) % M
=============================================================================
