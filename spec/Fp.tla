--------------------------------- MODULE Fp ---------------------------------
(***************************************************************************)
(* The prime field GF(p), p = 2^255 - 19, in exact BigNat arithmetic.      *)
(* Inverses and square roots are never searched for: a trace supplies them *)
(* as witnesses and the spec checks the defining identity.                 *)
(***************************************************************************)
EXTENDS Consts25519

P == P_

ASSUME PIsPrime25519 == Eq(Add(P, FromInt(19)), Pow2(255))

RECURSIVE ReduceP(_)
ReduceP(x) ==
    IF BitLen(x) > 255
    THEN ReduceP(Add(LowBits(x, 255), MulSmall(ShiftRight(x, 255), 19)))
    ELSE IF Le(P, x) THEN Sub(x, P) ELSE Norm(x)

IsCanon(x) == Lt(x, P)

AddP(a, b) == ReduceP(Add(a, b))
NegP1(r)   == IF IsZero(r) THEN Zero ELSE Sub(P, r)
NegP(a)    == NegP1(ReduceP(a))
SubP(a, b) == AddP(a, NegP(b))
MulP(a, b) == ReduceP(Mul(a, b))
SqrP(a)    == MulP(a, a)

EqP(a, b)  == Eq(ReduceP(a), ReduceP(b))

IsInvP(a, ai) == Eq(MulP(a, ai), One)

D      == D_
D2     == D2_
SQRTM1 == SQRTM1_

ASSUME DDef      == EqP(MulP(D, FromInt(121666)), NegP(FromInt(121665)))
ASSUME D2Def     == EqP(D2, AddP(D, D))
ASSUME Sqrtm1Def == EqP(SqrP(SQRTM1), NegP(One))

(***************************************************************************)
(* Squareness of u/v (v # 0) by witness.                                   *)
(*   square:      x with  x^2 v = u                                        *)
(*   non-square:  z with  z^2 v = 2 u  and u # 0  (2 is a non-residue      *)
(*                since p = 5 mod 8, so 2u/v is a square iff u/v is not)   *)
(***************************************************************************)
IsSqrtOfRatio(x, u, v)   == EqP(MulP(SqrP(x), v), u)
IsNonSquareWit(z, u, v)  == EqP(MulP(SqrP(z), v), AddP(u, u)) /\ ~IsZero(ReduceP(u))

=============================================================================
