------------------------------ MODULE FieldLimbs ------------------------------
(***************************************************************************)
(* R1 for C18: the carry discipline of the 5x51-bit field representation   *)
(* (curve25519_donna_64bit.go:72-186, 531-596), transcribed with the limb  *)
(* count NL, limb width W and the constant C (p = 2^(NL W) - C) as         *)
(* parameters and checked EXHAUSTIVELY by TLC at a scaled size (3 limbs of *)
(* 3 bits, p = 2^9 - 3 = 509, machine words of WS bits).  The 10x25.5      *)
(* layout follows the same scheme with two alternating widths.             *)
(*   classes of limb vectors (as the group law produces them)              *)
(*     R   reduced: limbs <= mask, limb 0 (and 1) may exceed it by a carry *)
(*     A1  = Add(R, R)        S1 = Sub(R, R)   (bias 2p)                   *)
(*     AB  = AddAfterBasic(A1, R)   SB = SubAfterBasic(x, y) (bias 4p)     *)
(* properties: exact residue, no limb underflow (the bias dominates the    *)
(* subtrahend), no machine-word overflow, reduced outputs, canonical       *)
(* serialisation for EVERY representation.                                 *)
(***************************************************************************)
EXTENDS Integers, Sequences, FiniteSets

CONSTANTS NL, W, C, WS, Slack     \* Slack: how far limb 0 / 1 of a "reduced" value may exceed the mask

Mask == (2 ^ W) - 1
P == (2 ^ (NL * W)) - C
Word == 2 ^ WS

RECURSIVE ValRec(_, _)
ValRec(a, i) == IF i > NL THEN 0 ELSE a[i] * (2 ^ (W * (i - 1))) + ValRec(a, i + 1)
Val(a) == ValRec(a, 1)

TwoP(i)  == IF i = 1 THEN 2 * ((2 ^ W) - C) ELSE 2 * Mask
FourP(i) == IF i = 1 THEN 4 * ((2 ^ W) - C) ELSE 4 * Mask

Add(a, b)  == [i \in 1..NL |-> a[i] + b[i]]
Sub(a, b)  == [i \in 1..NL |-> a[i] + TwoP(i) - b[i]]
SubAB(a, b) == [i \in 1..NL |-> a[i] + FourP(i) - b[i]]      \* SubAfterBasic

\* carry chain with a final fold of the top carry times C into limb 0 (AddReduce / SubReduce / Neg)
RECURSIVE Chain(_, _, _, _)
Chain(t, i, c, acc) ==
    IF i > NL THEN [acc EXCEPT ![1] = @ + c * C]
    ELSE LET v == t[i] + c IN Chain(t, i + 1, v \div (2 ^ W), Append(acc, v % (2 ^ W)))
Reduce(t) == Chain(t, 1, 0, << >>)
AddReduce(a, b) == Reduce(Add(a, b))
SubReduce(a, b) == Reduce(SubAB(a, b))
Neg(a) == Reduce([i \in 1..NL |-> TwoP(i) - a[i]])

\* Contract (curve25519_contract): two full carries, +19, full carry, +2^255-19, final carry, mask
CarryOnce(t) ==      \* contractCarry: limbs 1..NL-1 propagate, top limb accumulates
    LET RECURSIVE CC(_, _, _)
        CC(i, c, acc) == IF i = NL THEN Append(acc, t[NL] + c)
                         ELSE LET v == t[i] + c IN CC(i + 1, v \div (2 ^ W), Append(acc, v % (2 ^ W)))
    IN  CC(1, 0, << >>)
CarryFull(t)  == LET u == CarryOnce(t) IN [u EXCEPT ![1] = @ + C * (u[NL] \div (2 ^ W)), ![NL] = @ % (2 ^ W)]
CarryFinal(t) == LET u == CarryOnce(t) IN [u EXCEPT ![NL] = @ % (2 ^ W)]
Contract(t) ==
    LET t1 == CarryFull(CarryFull(t))
        t2 == CarryFull([t1 EXCEPT ![1] = @ + C])
        t3 == [i \in 1..NL |-> t2[i] + (IF i = 1 THEN (2 ^ W) - C ELSE (2 ^ W) - 1)]
    IN  Val(CarryFinal(t3))

\* Mul (curve25519_mul): schoolbook columns with the wrap-around columns folded in times C, one carry chain, the top
\* carry folded into limb 0 times C, and one more carry from limb 0 into limb 1 (which may therefore exceed the mask)
RECURSIVE ColSumF(_, _, _, _)
ColSumF(x, y, i, j) ==     \* SUM over j of x[j] * y[k] with j + k = i (0-based) or = i + NL (then times C)
    IF j > NL THEN 0
    ELSE LET k0 == i - (j - 1)    \* 0-based index of y for the direct column
             direct == IF k0 >= 0 /\ k0 < NL THEN x[j] * y[k0 + 1] ELSE 0
             k1 == i + NL - (j - 1)
             wrapped == IF k1 >= 0 /\ k1 < NL THEN C * x[j] * y[k1 + 1] ELSE 0
         IN  direct + wrapped + ColSumF(x, y, i, j + 1)
MulCols(x, y) == [i \in 1..NL |-> ColSumF(x, y, i - 1, 1)]
RECURSIVE MulChain(_, _, _, _)
MulChain(t, i, c, acc) ==
    IF i > NL THEN <<acc, c>>
    ELSE LET v == t[i] + c IN MulChain(t, i + 1, v \div (2 ^ W), Append(acc, v % (2 ^ W)))
Mul(x, y) ==
    LET ch == MulChain(MulCols(x, y), 1, 0, << >>)
        r  == ch[1]
        r0 == r[1] + ch[2] * C
    IN  [i \in 1..NL |-> IF i = 1 THEN r0 % (2 ^ W) ELSE IF i = 2 THEN r[2] + (r0 \div (2 ^ W)) ELSE r[i]]

\* ---- exhaustive exploration ----
VARIABLES a, b, pc
RSet == [1..NL -> 0..Mask] \cup {[i \in 1..NL |-> IF i <= 2 THEN Mask + Slack ELSE Mask]}
ZeroV == [i \in 1..NL |-> 0]
\* two-level enumeration through Next so that all TLC workers share the pairs
Init == a = ZeroV /\ b = ZeroV /\ pc = "start"
Next == \/ pc = "start" /\ a' \in RSet /\ b' = b /\ pc' = "a"
        \/ pc = "a" /\ b' \in RSet /\ a' = a /\ pc' = "ab"

NoOverflow(t) == \A i \in 1..NL : t[i] >= 0 /\ t[i] < Word
IsReduced(t)  == \A i \in 1..NL : t[i] >= 0 /\ t[i] <= Mask + (IF i = 1 THEN C * 8 ELSE 0)

A1 == Add(a, b)
S1 == Sub(a, b)

AddSubExact == pc = "ab" =>
    /\ NoOverflow(A1) /\ Val(A1) % P = (Val(a) + Val(b)) % P
    /\ NoOverflow(S1) /\ Val(S1) % P = (Val(a) - Val(b)) % P
AfterBasicExact == pc = "ab" =>
    LET ab == Add(A1, a)  sb1 == SubAB(A1, b)  sb2 == SubAB(a, A1)  sb3 == SubAB(b, S1)
    IN  /\ NoOverflow(ab) /\ NoOverflow(sb1) /\ NoOverflow(sb2) /\ NoOverflow(sb3)
        /\ Val(sb1) % P = (Val(A1) - Val(b)) % P
        /\ Val(sb2) % P = (Val(a) - Val(A1)) % P
        /\ Val(sb3) % P = (Val(b) - Val(S1)) % P
ReduceExact == pc = "ab" =>
    /\ NoOverflow(SubAB(a, b)) /\ NoOverflow([i \in 1..NL |-> TwoP(i) - a[i]])      \* unsigned words: the bias must dominate
    /\ IsReduced(AddReduce(a, b)) /\ Val(AddReduce(a, b)) % P = (Val(a) + Val(b)) % P
    /\ IsReduced(SubReduce(a, b)) /\ Val(SubReduce(a, b)) % P = (Val(a) - Val(b)) % P
    /\ IsReduced(Neg(a)) /\ Val(Neg(a)) % P = (-Val(a)) % P
\* Mul / Square on every operand class the group law feeds them: exact residue, output reduced (limb 1 by at most the
\* last carry), and the result serialises canonically
MulOps == <<a, b, A1, S1, Add(A1, a), SubAB(A1, b), SubAB(a, A1), SubAB(b, S1)>>
MulPairs == {<<i, j>> : i \in 1..8, j \in {1, 3, 4, 6, 8}} \cup {<<i, i>> : i \in 1..8}
\* (the product is passed as an operator argument so that TLC evaluates it once)
MulOk(x, y, m) ==
    /\ Val(m) % P = (Val(x) * Val(y)) % P                                  \* exact residue
    /\ \A k \in 1..NL : m[k] >= 0 /\ (k # 2 => m[k] <= Mask)               \* limbs 0, 2.. masked; limb 1 takes the last carry
    /\ Contract(m) = (Val(x) * Val(y)) % P                                  \* and the result serialises canonically
\* checked for every a and for the b whose limbs are at the extremes (0, 1, mask-1, mask) or the slack vector
BExtreme == (\A i \in 1..NL : b[i] \in {0, 1, Mask - 1, Mask}) \/ b[1] > Mask
MulExact == (pc = "ab" /\ BExtreme) => \A pr \in MulPairs : MulOk(MulOps[pr[1]], MulOps[pr[2]], Mul(MulOps[pr[1]], MulOps[pr[2]]))

ContractCanonical == pc = "ab" =>
    /\ Contract(a) = Val(a) % P
    /\ Contract(A1) = Val(A1) % P
    /\ Contract(S1) = Val(S1) % P
=============================================================================
