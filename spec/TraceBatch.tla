----------------------------- MODULE TraceBatch -----------------------------
(***************************************************************************)
(* Trace validation for VerifyBatch (C06, C17; also the batch side of C03, *)
(* C04, C05, C07, C09, C13).  One ndjson line = one real call, with        *)
(*   entries   abstract coordinates of every entry (as in TraceVerify)     *)
(*   z         the 128-bit randomisers actually read from the entropy      *)
(*             stream, per chunk                                           *)
(*   hooks     the event sequence recorded by the `verif` hooks at the     *)
(*             linearization points of the real code                       *)
(*   result    what the call returned                                      *)
(* The Batch state machine is run with the real constants (4, 64) on the   *)
(* abstract entries; the behaviour is accepted iff the events it emits are *)
(* exactly the recorded hook sequence and its result is the recorded one.  *)
(* The chunk equation is predicted EXACTLY from the logged randomisers:    *)
(*      SUM z_i (S_i - h_i kA_i - kR_i) = 0 (mod L)                        *)
(* whenever all entries of the chunk have known coordinates.               *)
(***************************************************************************)
EXTENDS VerifyExactOps, Json, TLC, IOUtils

Tr == ndJsonDeserialize(IOEnv.VERIF_TRACE)
NTr == Len(Tr)

\* The trace is self-contained: "entry" lines describe the distinct entries (key, message,
\* signature with their abstract coordinates), "batch" lines are calls that refer to entries by
\* number.  The abstract attributes of every distinct entry are computed ONCE (constant level).
EntryLines == SelectSeq(Tr, LAMBDA e : e.op = "entry")

PtOf(j) == [dec |-> j.dec, known |-> j.known, k |-> FromBytes(j.k), t |-> j.t, small |-> j.small]

\* abstract entry record of Batch.tla from a logged entry
InOf(e, z) == [siglen |-> 64, S |-> FromBytes(e.S), A |-> PtOf(e.A), R |-> PtOf(e.R),
               h |-> FromBytes(e.h), zip |-> z, eq8 |-> e.eq8]

\* defect of an entry:  S - h kA - kR  (mod L); the entry's own equation holds iff it is 0
Defect(e) == SubL(FromBytes(e.S), AddL(MulL(ModL(FromBytes(e.h)), FromBytes(e.A.k)), FromBytes(e.R.k)))

Abs(e) ==
    LET a == PtOf(e.A)  r == PtOf(e.R)
        structOk == e.sigLenOk /\ e.keyLenOk /\ a.dec /\ r.dec
        known == structOk /\ a.known /\ r.known
        d == IF known THEN Defect(e) ELSE Zero
    IN  [ref |-> e.ref, sigLenOk |-> e.sigLenOk, keyLenOk |-> e.keyLenOk, hashOk |-> e.hashOk,
         sMin   |-> IF e.sigLenOk THEN xSLtL(FromBytes(e.S)) ELSE FALSE,
         decA   |-> e.keyLenOk /\ a.dec,
         decR   |-> e.sigLenOk /\ r.dec,
         smallA |-> IF e.keyLenOk THEN (~a.dec \/ VP!SmallOrder(a)) ELSE TRUE,
         smallR |-> IF e.sigLenOk THEN (~r.dec \/ VP!SmallOrder(r)) ELSE TRUE,
         known  |-> known,
         d      |-> d,
         eqRed  |-> IF ~structOk THEN FALSE ELSE IF known THEN IsZero(d) ELSE e.eq8]

AbsTable == SubSeq([p \in 1..Len(EntryLines) |-> Abs(EntryLines[p])], 1, Len(EntryLines))
ASSUME \A p \in 1..Len(EntryLines) : EntryLines[p].ref = p

VARIABLES entries, zip, entropyOk, pc, num, offset, valid, ret, batchOk, chunk, evs, result, idx
tvars == <<entries, zip, entropyOk, pc, num, offset, valid, ret, batchOk, chunk, evs, result, idx>>

\* sum of component k of a tuple of pairs, mod L (accumulator style: every intermediate value is
\* LET-bound, so TLC evaluates it exactly once)
RECURSIVE SumComp(_, _, _, _)
SumComp(terms, k, j, acc) ==
    IF j > Len(terms) THEN acc
    ELSE LET nacc == AddL(acc, terms[j][k]) IN SumComp(terms, k, j + 1, nacc)

\* exact prediction of the batch equation of the chunk starting at off:
\*     SUM z_j d_j = 0 (mod L)   -- only entries with a non-zero defect contribute
\* (the call index travels inside the abstract entries so that this operator is constant-level)
xChunkEquation(es, off, bs) ==
    IF \A j \in (off + 1)..(off + bs) : es[j].known
    THEN LET zs    == Tr[es[off + 1].call].z
             bad   == SelectSeq([j \in 1..bs |-> off + j], LAMBDA j : ~IsZero(es[j].d))
             terms == SubSeq([k \in 1..Len(bad) |-> <<MulL(FromBytes(zs[bad[k]]), es[bad[k]].d)>>], 1, Len(bad))
         IN  IsZero(SumComp(terms, 1, 1, Zero))
    ELSE \A j \in (off + 1)..(off + bs) : es[j].eqRed

B == INSTANCE Batch WITH MinBatch <- 4, MaxBatch <- 64, ChunkEquation <- xChunkEquation

\* first position at which two sequences differ (0 = equal)
RECURSIVE FirstDiff(_, _, _)
FirstDiff(a, b, k) ==
    IF k > Len(a) /\ k > Len(b) THEN 0
    ELSE IF k > Len(a) \/ k > Len(b) THEN k
    ELSE IF a[k] # b[k] THEN k ELSE FirstDiff(a, b, k + 1)

\* compact one-line report: the components that differ and where
\*   component 1: the returned result; 2: chunks whose observable behaviour contradicts C06 / C17 (a set of offsets);
\*   3: per-entry result vs the specification's single verification; 4: vs the real single verifier
Report(i, expected, got) ==
    LET d == [c \in 1..Len(expected) |->
                 IF expected[c] = got[c] THEN 0
                 ELSE IF c = 1 THEN (IF expected[c].err # got[c].err \/ expected[c].ok # got[c].ok THEN -1
                                     ELSE FirstDiff(expected[c].valid, got[c].valid, 1))
                 ELSE IF c = 2 THEN -2
                 ELSE FirstDiff(expected[c], got[c], 1)]
        diff == SubSeq(d, 1, Len(expected))
        bad  == \E c \in 1..Len(expected) : diff[c] # 0
        detail(c) == IF c = 2 THEN <<c, "chunks at offsets", got[c]>>
                     ELSE IF diff[c] <= 0 THEN <<c, diff[c]>>
                     ELSE IF c = 1 THEN <<c, diff[c], expected[c].valid[diff[c]], got[c].valid[diff[c]]>>
                     ELSE <<c, diff[c], IF diff[c] <= Len(expected[c]) THEN expected[c][diff[c]] ELSE "end",
                                        IF diff[c] <= Len(got[c]) THEN got[c][diff[c]] ELSE "end">>
    IN  PrintT(<<"EV", i, Tr[i].id, IF bad THEN "MISMATCH" ELSE "ok",
                 IF bad THEN [c \in {x \in 1..Len(expected) : diff[x] # 0} |-> detail(c)] ELSE "-">>)

TInit == /\ pc = "root" /\ idx = 0 /\ entries = << >> /\ zip = FALSE /\ entropyOk = << >>
         /\ num = 0 /\ offset = 0 /\ valid = << >> /\ ret = {} /\ batchOk = TRUE /\ chunk = 0
         /\ evs = << >> /\ result = "none"

\* calls refused before the loop (context too long, argument count mismatch): no hook events
StartCall ==
    /\ pc = "root"
    /\ \E i \in 1..NTr :
         /\ Tr[i].op = "batch"
         /\ idx' = i
         /\ IF Tr[i].pre # "none"
            THEN /\ pc' = "returned" /\ result' = [ok |-> FALSE, valid |-> << >>, err |-> Tr[i].pre]
                 /\ UNCHANGED <<entries, zip, entropyOk, num, offset, valid, ret, batchOk, chunk, evs>>
            ELSE LET n  == Len(Tr[i].refs)
                     es == B!Tup([j \in 1..n |-> [AbsTable[Tr[i].refs[j]] EXCEPT !.hashOk = @ /\ Tr[i].hashOkAll]
                                                   @@ [call |-> i]], n)
                 IN  /\ entries' = es /\ zip' = Tr[i].zip /\ entropyOk' = Tr[i].entropyOk
                     /\ pc' = "loop" /\ num' = n /\ offset' = 0
                     /\ valid' = B!Tup([j \in 1..n |-> TRUE], n)
                     /\ ret' = {} /\ batchOk' = TRUE /\ chunk' = 0 /\ evs' = << >> /\ result' = "none"

Step == pc \notin {"root", "returned", "checked"} /\ B!BNext /\ UNCHANGED idx

HookSeq(i) == [k \in 1..Len(Tr[i].hooks) |-> <<Tr[i].hooks[k][1], Tr[i].hooks[k][2], Tr[i].hooks[k][3]>>]
GotResult(i) == [ok |-> Tr[i].result.ok, valid |-> Tr[i].result.valid, err |-> Tr[i].result.err]

\* What the properties say about the OBSERVABLE behaviour of one chunk of the real call (h = recorded hook events,
\* k = index of its ChunkBegin event).  The model's own event sequence is stricter (which entry failBatch names, the
\* order of the marks, ...): a difference there is reported as a NOTE, not as a violation, because C06 / C17 do not
\* prescribe it.
ChunkIdx(h) == {k \in 1..Len(h) : h[k][1] = "ChunkBegin"}
SegEnd(h, k) == IF \E m \in ChunkIdx(h) : m > k
                THEN (CHOOSE m \in ChunkIdx(h) : m > k /\ \A q \in ChunkIdx(h) : q > k => m <= q) - 1
                ELSE Len(h)
ChunkBad(h, k, callOk) ==
    LET off == h[k][2]   bs == h[k][3]
        seg == (k + 1)..SegEnd(h, k)
        eqs == {m \in seg : h[m][1] = "Equation"}
        fellBack == \E m \in seg : h[m][1] = "Fallback"
        inRange  == off >= 0 /\ bs >= 1 /\ off + bs <= Len(entries)
    IN  \/ ~inRange
        \* C17: whenever the batch equation is evaluated its result is the exact one
        \/ \E m \in eqs : (h[m][2] = 1) # xChunkEquation(entries, off, bs)
        \* C17: a chunk whose entries are all valid is accepted by the equation itself, without the fallback
        \/ /\ callOk
           /\ \A j \in (off + 1)..(off + bs) : B!Single(entries[j], zip)
           /\ fellBack \/ ~\E m \in eqs : h[m][2] = 1
ProjBad(h, callOk) == {h[k][2] : k \in {kk \in ChunkIdx(h) : ChunkBad(h, kk, callOk)}}

Finish ==
    /\ pc = "returned"
    /\ LET got    == GotResult(idx)
           h      == HookSeq(idx)
           \* C06: per-entry result = single verification (stated for non-degenerate entropy)
           strict == Tr[idx].pre = "none" /\ result.err = "none" /\ ~Tr[idx].degenerate
           single == [j \in 1..Len(entries) |-> B!Single(entries[j], zip)]
           \* ... and equals what the real single verifier returned for the same entry
           real   == IF strict THEN Tr[idx].singles ELSE << >>
           chunks == IF Tr[idx].pre = "none" THEN ProjBad(h, got.err = "none") ELSE {}
       IN  /\ Report(idx, <<result, {}, IF strict THEN single ELSE << >>, real>>,
                          <<got, chunks, IF strict THEN got.valid ELSE << >>, IF strict THEN got.valid ELSE << >> >>)
           /\ IF FirstDiff(evs, h, 1) = 0 THEN TRUE
              ELSE PrintT(<<"NOTE", idx, "hook sequence differs from Batch.tla at", FirstDiff(evs, h, 1)>>)
    /\ pc' = "checked"
    /\ UNCHANGED <<entries, zip, entropyOk, num, offset, valid, ret, batchOk, chunk, evs, result, idx>>

TNext == StartCall \/ Step \/ Finish
TSpec == TInit /\ [][TNext]_tvars

Active == pc \notin {"root", "checked"} /\ Tr[idx].pre = "none"
PerEntryExact          == Active => B!PerEntryExact
SummaryIsConjunction   == Active => B!SummaryIsConjunction
IndicesInRange         == Active => B!IndicesInRange
=============================================================================
