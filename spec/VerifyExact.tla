----------------------------- MODULE VerifyExact -----------------------------
(* Verify (pipeline) instantiated with exact arithmetic on the real constants. *)
EXTENDS VerifyExactOps

VARIABLES pc, in, verdict

V == INSTANCE Verify WITH
        SLtL <- xSLtL, Top3Clear <- xTop3Clear, TopNibbleClear <- xTopNibbleClear,
        ScMinFastReject <- xScMinFastReject,
        WordCompareLtL <- xWordCompareLtL, KZero <- xKZero, EqnZero <- xEqnZero
=============================================================================
