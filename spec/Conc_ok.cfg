SPECIFICATION Spec
CONSTANTS
  Clients = {1, 2, 3}
  NChunks = 3
  SharedScratch = FALSE
INVARIANTS GlobalsUnchanged ResultsSolo
CHECK_DEADLOCK FALSE
