SPECIFICATION Spec
CONSTANTS
  MaxLenAll = 4
  MaxLenFew = 6
  MinBatch = 2
  MaxBatch = 3
INVARIANTS PerEntryExact SummaryIsConjunction IndicesInRange FallbackJustified ValidChunksUseEquation Terminates
CHECK_DEADLOCK FALSE
