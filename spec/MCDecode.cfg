INIT Init
NEXT Next
INVARIANTS ParamsHold AlgorithmExact RootCorrect OnMont
