------------------------------ MODULE MCVerify ------------------------------
(***************************************************************************)
(* Scaled instance for exhaustive model checking of Verify:                *)
(*   group Z_17 x Z_8 (L' = 17 = 2^4 + 1 mirrors L = 2^252 + c),           *)
(*   scalar halves are 8-bit values: bit 4 plays 2^252, bits 5..7 the top  *)
(*   three bits; the word-wise comparison runs over four 2-bit words.      *)
(***************************************************************************)
EXTENDS Integers, Sequences, FiniteSets, TLC

CONSTANTS KSet, TSet, SSet, HSet, LenSet   \* finite sub-domains explored (cfg)
CONSTANT  FastRejectMask                  \* scMinimal's fast-reject mask: 224 is right; 244 (the pinned tree's typo) makes TLC report a counterexample

Lp == 17

\* scaled "byte" view of an 8-bit S: the whole scalar is its own top byte
BitAnd(x, m) == LET RECURSIVE BA(_, _, _)
                    BA(a, b, w) == IF w = 0 THEN 0
                                   ELSE (IF ((a) % 2) = 1 /\ ((b) % 2) = 1 THEN 1 ELSE 0) + 2 * BA(a \div 2, b \div 2, w - 1)
                IN  BA(x, m, 8)

mSLtL(S)           == S < Lp
mTop3Clear(S)      == BitAnd(S, 224) = 0
mScMinFastReject(S) == BitAnd(S, FastRejectMask) # 0
mTopNibbleClear(S) == BitAnd(S, 240) = 0

\* order words, little-endian 2-bit words of 17 = 0b00010001 -> <<1, 0, 1, 0>>
OrderWords == <<1, 0, 1, 0>>
Word(S, i) == ((S \div (4 ^ (i - 1))) % 4)

\* the loop of scMinimal (ed25519.go:456-465) from the top word down
RECURSIVE WordLoop(_, _)
WordLoop(S, i) ==
    LET v == Word(S, i)  o == OrderWords[i]
    IN  IF v > o THEN FALSE
        ELSE IF v < o THEN TRUE
        ELSE IF i = 1 THEN FALSE
        ELSE WordLoop(S, i - 1)
mWordCompareLtL(S) == WordLoop(S, 4)

mKZero(k) == ((k) % Lp) = 0
mEqnZero(S, h, kA, kR) == ((S - h * kA - kR) % Lp) = 0

VARIABLES pc, in, verdict

V == INSTANCE Verify WITH
        SLtL <- mSLtL, Top3Clear <- mTop3Clear, TopNibbleClear <- mTopNibbleClear, ScMinFastReject <- mScMinFastReject,
        WordCompareLtL <- mWordCompareLtL, KZero <- mKZero, EqnZero <- mEqnZero

Points == {[dec |-> FALSE, known |-> TRUE, k |-> 0, t |-> 0, small |-> FALSE]}
          \cup {[dec |-> TRUE, known |-> TRUE, k |-> k, t |-> t, small |-> FALSE] : k \in KSet, t \in TSet}

Inputs == [siglen : LenSet, S : SSet, A : Points, R : Points, h : HSet, zip : BOOLEAN, eq8 : {FALSE}]

\* All inputs are enumerated through Next (Init is single-threaded in TLC).
Init == pc = "start" /\ verdict = "none" /\ in = [siglen |-> 0, S |-> 0, A |-> CHOOSE p \in Points : ~p.dec,
                                                  R |-> CHOOSE p \in Points : ~p.dec, h |-> 0, zip |-> FALSE, eq8 |-> FALSE]
Start == /\ pc = "start"
         /\ in' \in Inputs
         /\ pc' = "chk_len_high_decA"
         /\ verdict' = "none"
Next == Start \/ V!PNext
Spec == Init /\ [][Next]_<<pc, in, verdict>>

PipelineExact         == pc # "start" => V!PipelineExact
ScMinimalExact        == pc # "start" => V!ScMinimalExact
ZipWidens             == pc # "start" => V!ZipWidens
ZipDiffersOnlyOnSmall == pc # "start" => V!ZipDiffersOnlyOnSmall

\* C04 uniqueness: for fixed (A, R, h, mode) at most one 8-bit S is accepted
Unique == pc = "chk_len_high_decA" =>
            \A S2 \in SSet : (V!Accept(in) /\ V!Accept([in EXCEPT !.S = S2])) => S2 = in.S

\* C03 (design side): an honest signature S = r + h a, a # 0, r # 0 is accepted in both modes
HonestAccepted ==
    (/\ pc = "chk_len_high_decA"
     /\ in.siglen = 64 /\ in.A.dec /\ in.R.dec /\ ~mKZero(in.A.k) /\ ~mKZero(in.R.k)
     /\ in.S = ((in.R.k + in.h * in.A.k) % Lp))
    => (V!AcceptDefault(in) /\ V!AcceptZip(in))
=============================================================================
