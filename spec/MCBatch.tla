------------------------------- MODULE MCBatch -------------------------------
(***************************************************************************)
(* Scaled instance of Batch for exhaustive model checking: MinBatch = 2,   *)
(* MaxBatch = 3, every sequence of entry kinds up to the configured        *)
(* lengths, both modes, entropy failure at any chunk.  The chunk equation  *)
(* is abstracted to "every entry of the chunk satisfies its own equation"  *)
(* (what a uniformly random stream gives except with probability 2^-128).  *)
(***************************************************************************)
EXTENDS Integers, Sequences, FiniteSets, TLC

CONSTANTS MaxLenAll,      \* all kinds up to this length
          MaxLenFew,      \* restricted kinds up to this length
          MinBatch, MaxBatch

E(sl, sm, kl, ho, da, dr, sa, sr, eq) ==
    [sigLenOk |-> sl, sMin |-> sm, keyLenOk |-> kl, hashOk |-> ho, decA |-> da, decR |-> dr,
     smallA |-> sa, smallR |-> sr, eqRed |-> eq]

Valid      == E(TRUE,  TRUE,  TRUE,  TRUE,  TRUE,  TRUE,  FALSE, FALSE, TRUE)
WrongMsg   == E(TRUE,  TRUE,  TRUE,  TRUE,  TRUE,  TRUE,  FALSE, FALSE, FALSE)
HighSOk    == E(TRUE,  FALSE, TRUE,  TRUE,  TRUE,  TRUE,  FALSE, FALSE, TRUE)   \* S + L of a valid signature
HighSBad   == E(TRUE,  FALSE, TRUE,  TRUE,  TRUE,  TRUE,  FALSE, FALSE, FALSE)
SigLenBad  == E(FALSE, TRUE,  TRUE,  TRUE,  TRUE,  TRUE,  FALSE, FALSE, FALSE)
KeyLenBad  == E(TRUE,  TRUE,  FALSE, TRUE,  FALSE, TRUE,  TRUE,  FALSE, FALSE)
HashBad    == E(TRUE,  TRUE,  TRUE,  FALSE, TRUE,  TRUE,  FALSE, FALSE, TRUE)
SmallAEq   == E(TRUE,  TRUE,  TRUE,  TRUE,  TRUE,  TRUE,  TRUE,  FALSE, TRUE)   \* accepted by ZIP-215 only
UndecA     == E(TRUE,  TRUE,  TRUE,  TRUE,  FALSE, TRUE,  TRUE,  FALSE, FALSE)
SmallREq   == E(TRUE,  TRUE,  TRUE,  TRUE,  TRUE,  TRUE,  FALSE, TRUE,  TRUE)
UndecR     == E(TRUE,  TRUE,  TRUE,  TRUE,  TRUE,  FALSE, FALSE, TRUE,  FALSE)

AllKinds == {Valid, WrongMsg, HighSOk, HighSBad, SigLenBad, KeyLenBad, HashBad, SmallAEq, UndecA, SmallREq, UndecR}
FewKinds == {Valid, WrongMsg, HighSOk, SigLenBad}

mChunkEquation(es, off, bs) == \A j \in (off + 1)..(off + bs) : es[j].eqRed

VARIABLES entries, zip, entropyOk, pc, num, offset, valid, ret, batchOk, chunk, evs, result

B == INSTANCE Batch WITH ChunkEquation <- mChunkEquation

SeqsUpTo(S, n) == UNION {[1..k -> S] : k \in 0..n}

MaxChunks == (MaxLenFew \div MinBatch) + 1
EntropyChoices == {[c \in 1..MaxChunks |-> TRUE]} \cup {[c \in 1..MaxChunks |-> c # f] : f \in 1..MaxChunks}

Init == /\ pc = "start" /\ entries = << >> /\ zip = FALSE /\ entropyOk = << >>
        /\ num = 0 /\ offset = 0 /\ valid = << >> /\ ret = {} /\ batchOk = TRUE /\ chunk = 0
        /\ evs = << >> /\ result = "none"

StartWith(es, z, ent) ==
    /\ entries' = es /\ zip' = z /\ entropyOk' = ent
    /\ pc' = "loop" /\ num' = Len(es) /\ offset' = 0
    /\ valid' = B!Tup([i \in 1..Len(es) |-> TRUE], Len(es))
    /\ ret' = {} /\ batchOk' = TRUE /\ chunk' = 0 /\ evs' = << >> /\ result' = "none"

\* every kind of entry with a working entropy source; a failing source with the restricted kinds
Start == /\ pc = "start"
         /\ \/ \E es \in SeqsUpTo(AllKinds, MaxLenAll), z \in BOOLEAN : StartWith(es, z, [c \in 1..MaxChunks |-> TRUE])
            \/ \E es \in SeqsUpTo(FewKinds, MaxLenFew), z \in BOOLEAN, ent \in EntropyChoices : StartWith(es, z, ent)

Next == Start \/ B!BNext
Spec == Init /\ [][Next]_<<entries, zip, entropyOk, pc, num, offset, valid, ret, batchOk, chunk, evs, result>>

Started == pc # "start"
PerEntryExact          == Started => B!PerEntryExact
SummaryIsConjunction   == Started => B!SummaryIsConjunction
IndicesInRange         == Started => B!IndicesInRange
FallbackJustified      == Started => B!FallbackJustified
ValidChunksUseEquation == Started => B!ValidChunksUseEquation

\* the call always returns (no stuck state other than "returned")
Terminates == Started => (pc = "returned" \/ ENABLED B!BNext)

\* observation variables are functions of the rest: hide nothing here, evs is needed by the invariants
=============================================================================
