SPECIFICATION FairSpec
CONSTANTS
  BigSet5 = {0, 1, 7, 64, 255}
  SmallSet5 = {0, 3, 7}
  BigSet7 = {1, 77}
  SmallSet7 = {0, 6}
PROPERTY Terminates
CHECK_DEADLOCK FALSE
