----------------------------- MODULE MCBosCoster -----------------------------
(***************************************************************************)
(* Scaled instance of BosCoster: 2-bit limbs, 4 limbs (8-bit scalars),     *)
(* "128-bit" threshold = 3 bits, points are formal basis vectors.          *)
(***************************************************************************)
EXTENDS Integers, Sequences, FiniteSets, TLC

CONSTANTS BigSet5, SmallSet5, BigSet7, SmallSet7   \* scalar domains explored for count = 5 / 7

BPL       == 2
NLimbsC   == 4
SmallBits == 3
Limb128C  == (SmallBits + BPL - 1) \div BPL
MaxCount  == 7

Pow(n) == 2 ^ n
Trunc(a, ls) == a % Pow(BPL * (ls + 1))

mSLt(a, b, ls)  == Trunc(a, ls) < Trunc(b, ls)
mSLe(a, b, ls)  == Trunc(a, ls) <= Trunc(b, ls)
mSSub(a, b, ls) == (a - Trunc(a, ls)) + ((Trunc(a, ls) - Trunc(b, ls)) % Pow(BPL * (ls + 1)))
mSIsZero(a)     == a = 0
mSIsOne(a)      == a = 1
mSLimbIsZero(a, i) == ((a \div Pow(BPL * i)) % Pow(BPL)) = 0
mSAtMost128(a)  == a < Pow(SmallBits)
mSLowLimbs(a, n) == a % Pow(BPL * (n + 1))

Vec == [0..(MaxCount - 1) -> Int]
Unit(i) == [j \in 0..(MaxCount - 1) |-> IF i = j THEN 1 ELSE 0]
mPAdd(p, q) == [j \in 0..(MaxCount - 1) |-> p[j] + q[j]]
mPMul(s, p) == [j \in 0..(MaxCount - 1) |-> s * p[j]]
mPZero == [j \in 0..(MaxCount - 1) |-> 0]

VARIABLES scalars, points, heap, size, limbSize, extended, count, pc, max1, max2, hevs, res, target

BC == INSTANCE BosCoster WITH
        NLimbs <- NLimbsC, Limb128 <- Limb128C, SLt <- mSLt, SLe <- mSLe, SSub <- mSSub, SIsZero <- mSIsZero,
        SIsOne <- mSIsOne, SLimbIsZero <- mSLimbIsZero, SAtMost128 <- mSAtMost128, SLowLimbs <- mSLowLimbs,
        PAdd <- mPAdd, PMul <- mPMul, PZero <- mPZero

Init == /\ pc = "start" /\ scalars = << >> /\ points = << >> /\ heap = << >> /\ size = 0 /\ limbSize = 0
        /\ extended = FALSE /\ count = 0 /\ max1 = 0 /\ max2 = 0 /\ hevs = << >> /\ res = "none" /\ target = mPZero

\* number of scalars that come from the batch's 253-bit side: scalars[0..bs]; the rest are 128-bit randomisers
StartWith(cnt, scs) ==
    /\ scalars' = scs /\ count' = cnt
    /\ points' = [i \in 1..cnt |-> Unit(i - 1)]
    /\ heap' = [i \in 1..cnt |-> 0] /\ size' = 0
    /\ limbSize' = NLimbsC - 1 /\ extended' = FALSE
    /\ pc' = "build" /\ max1' = 0 /\ max2' = 0 /\ hevs' = << >> /\ res' = "none"
    /\ target' = [j \in 0..(MaxCount - 1) |-> IF j < cnt THEN scs[j + 1] ELSE 0]

Start == /\ pc = "start"
         /\ \/ \E b \in [1..3 -> BigSet5], s \in [1..2 -> SmallSet5] : StartWith(5, b \o s)
            \/ \E b \in [1..4 -> BigSet7], s \in [1..3 -> SmallSet7] : StartWith(7, b \o s)

Next == Start \/ (BC!HNext /\ UNCHANGED target)
Spec == Init /\ [][Next]_<<scalars, points, heap, size, limbSize, extended, count, pc, max1, max2, hevs, res, target>>

\* liveness: under weak fairness every run terminates (each iteration subtracts a non-zero scalar)
FairSpec == Spec /\ WF_<<scalars, points, heap, size, limbSize, extended, count, pc, max1, max2, hevs, res, target>>(Next)
Terminates == <>(pc = "done")

Running == pc \in {"loop", "final", "done"}

\* (I1) the linear combination is preserved by every step
RECURSIVE SumVec(_)
SumVec(i) == IF i > count THEN mPZero ELSE mPAdd(mPMul(scalars[i], points[i]), SumVec(i + 1))
SumPreserved == Running => SumVec(1) = target

\* (I2) no scalar in the heap has a non-zero limb above limbSize, so truncated comparisons are exact
\*      and the heap is a max-heap
TruncExact == Running => \A i \in 0..(size - 1) : scalars[i + 1] = Trunc(scalars[i + 1], limbSize)
HeapOrdered == pc = "loop" => \A n \in 1..(size - 1) : scalars[heap[((n - 1) \div 2) + 1] + 1] >= scalars[heap[n + 1] + 1]
HeapIsPermutation == Running => {heap[i] : i \in 1..size} = 0..(size - 1)

\* (I4/I5) the result is the exact sum unless the run is design-inexact
ResultExact == pc = "done" => (BC!Inexact \/ res = target)

\* with non-zero randomisers and at least two non-zero scalars at the start the run is never inexact
NeverInexactOnGenericInput ==
    (pc = "done" /\ \A i \in 1..count : scalars[i] >= 0) =>
        ((\A j \in 0..(count - 1) : target[j] # 0) => ~BC!Inexact)
=============================================================================
