------------------------------ MODULE TraceApi ------------------------------
(***************************************************************************)
(* Trace validation for the API contract (C13) and key objects (C14).      *)
(*   "api"     one call with an argument shape: outcome class + frame      *)
(*   "genkey"  GenerateKey on a reader of a given kind                     *)
(*   "equal"   one cell of the Equal truth table                           *)
(*   "access"  Public()/Seed() freshness and round trip                    *)
(***************************************************************************)
EXTENDS Api, Json, TLC, IOUtils

Tr == ndJsonDeserialize(IOEnv.VERIF_TRACE)
N  == Len(Tr)
NB == 16

VARIABLES pc, blk, idx, chk
tvars == <<pc, blk, idx, chk>>

Eval(i) ==
    LET e == Tr[i]
    IN  CASE e.op = "api" ->
               << <<"outcome class", ApiOutcome(e), e.outcome>>,
                  <<"arguments unmodified (whole backing arrays)", TRUE, e.unchanged>>,
                  <<"result vector length", IF e.fn = "VerifyBatch" THEN BatchVectorLen(e) ELSE 0, e.vecLen>> >>
          [] e.op = "genkey" ->
               LET x == GenKeyExpected(e.avail)
               IN  << <<"error reported", x.err, e.err>>,
                      <<"bytes consumed from the reader", x.consumed, e.consumed>>,
                      <<"key returned", x.key, e.hasKey>>,
                      <<"sequence of Read calls follows io.ReadFull", IF x.key THEN "key" ELSE "error",
                          IF e.reads = << >> THEN (IF x.key THEN "key" ELSE "error") ELSE ReadFullRun(e.reads, 1, 0)>>,
                      <<"key pair = NewKeyFromSeed(first 32 bytes); priv = seed || pub; pub = priv.Public()", TRUE, e.coherent>> >>
          [] e.op = "equal" ->
               << <<"Equal", EqualExpected(e.sameType, e.a, e.b), e.got>> >>
          [] e.op = "access" ->
               << <<"Public() is the public half", TRUE, e.publicOk>>,
                  <<"Seed() is the seed half", TRUE, e.seedOk>>,
                  <<"NewKeyFromSeed(k.Seed()) = k", TRUE, e.roundTrip>>,
                  <<"accessors return fresh copies", TRUE, e.fresh>> >>
          [] OTHER -> << <<"unknown op", "", e.op>> >>

Report ==
    /\ pc = "eval"
    /\ LET bad == {k \in 1..Len(chk) : chk[k][2] # chk[k][3]}
       IN  PrintT(<<"EV", idx, Tr[idx].id, IF bad = {} THEN "ok" ELSE "MISMATCH", {chk[k] : k \in bad}>>)
    /\ pc' = "checked" /\ UNCHANGED <<blk, idx, chk>>

TInit == pc = "root" /\ blk = 0 /\ idx = 0 /\ chk = << >>
ToBlock == pc = "root" /\ \E b \in 1..NB : b <= N /\ blk' = b /\ pc' = "block" /\ idx' = 0 /\ chk' = chk
ToEvent == /\ pc = "block"
           /\ \E i \in 1..N : ((i - 1) % NB) + 1 = blk /\ Tr[i].op # "note" /\ idx' = i /\ chk' = Eval(i)
           /\ pc' = "eval" /\ UNCHANGED blk
TNext == ToBlock \/ ToEvent \/ Report
TSpec == TInit /\ [][TNext]_tvars
=============================================================================
