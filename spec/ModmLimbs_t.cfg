INIT Init
NEXT Next
CONSTANTS NL = 3 W = 4 T = 3 B = 1 WordBits = 5 Variant = "code" Moduli = {512, 513, 517, 647, 777, 1021, 1023}
INVARIANTS ExpandExact Q3Exact MulAddExact
CHECK_DEADLOCK FALSE
