INIT Init
NEXT Next
CONSTANTS Variant = "sub_nocarry"
INVARIANTS NoOverflow
CHECK_DEADLOCK FALSE
