SPECIFICATION TSpec
INVARIANTS TruncExact
CHECK_DEADLOCK FALSE
