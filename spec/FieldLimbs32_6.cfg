INIT Init
NEXT Next
CONSTANTS NL = 6 WE = 3 WO = 2 C = 3 Word = 512 Head2 = 64 SubCarry = 4 Slack = 2 AMode = "extreme" BMode = "corner" PairMode = "some" Variant = "code"
INVARIANTS AddSubExact ReduceExact MulExact SquareExact MulIsColumnSum ContractCanonical
CHECK_DEADLOCK FALSE
