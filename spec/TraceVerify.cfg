SPECIFICATION TSpec
INVARIANTS PipelineExact
CHECK_DEADLOCK FALSE
