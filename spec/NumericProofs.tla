---------------------------- MODULE NumericProofs ----------------------------
(***************************************************************************)
(* TLAPS proofs (unbounded: any position, any number of digits / limbs) of *)
(* the LOCAL algebra that the exhaustive scaled models and the trace specs *)
(* rely on - the step of a loop conserves the represented value:           *)
(*  1. one step of the "making it signed" loop of ContractWindow4          *)
(*     (Recode!SignedLoop): the digit lands in -8..7, the two carries are  *)
(*     0 / 1 resp. stay small, and  digit + 16 * (what moves up) equals    *)
(*     what was there - so the weighted digit sum is invariant whatever    *)
(*     the position i and the number of digits ND;                         *)
(*  2. one step of a carry chain of the field files (FieldLimbs!Chain,     *)
(*     FieldLimbs32!FullChain, the Mul reductions): limb + B * carry       *)
(*     equals the incoming value, the limb is masked, for any limb base B; *)
(*  3. the fold of the top carry: 2^n = p + c, so carry * 2^n and          *)
(*     carry * c differ by a multiple of p (stated with N = 2^n abstract); *)
(*  4. one borrow step of the scalar files (ModmLimbs!SubChain): the       *)
(*     result limb is in range and  r - p + b * B  is what was computed;    *)
(*  5. the wrap-around law of the 10 x 25.5 layout (factor 19).            *)
(***************************************************************************)
EXTENDS Integers, TLAPS

\* ---- 1. signed radix-16 step: a = r[i] + carry; r[i+1] += a \div 16; lo = a % 16; c = lo \div 8; r[i] = lo - 16 c
THEOREM Window4Step ==
    ASSUME NEW ri \in 0..16, NEW carry \in 0..1
    PROVE  LET a  == ri + carry
               up == a \div 16
               lo == a % 16
               c  == lo \div 8
               d  == lo - 16 * c
           IN  /\ d \in -8..7
               /\ c \in 0..1
               /\ up \in 0..1
               /\ d + 16 * (up + c) = ri + carry
  OBVIOUS

\* the entry above keeps the bound the step needs: a nibble (0..15) that received at most one carry from below is 0..16
THEOREM Window4Bound ==
    ASSUME NEW nib \in 0..15, NEW up \in 0..1
    PROVE  nib + up \in 0..16
  OBVIOUS

\* ---- 2. carry-chain step with limb base B (B = 2^51, 2^26, 2^25, 2^56, 2^30, ... any B > 0)
THEOREM CarryStep ==
    ASSUME NEW B \in Nat, B > 0, NEW t \in Nat, NEW cin \in Nat
    PROVE  LET v == t + cin IN
           /\ v % B \in 0..(B - 1)
           /\ v \div B \in Nat
           /\ (v % B) + B * (v \div B) = t + cin
  OBVIOUS

\* ---- 3. folding the top carry: with N = p + c (N = 2^255, c = 19), carry * N = carry * c + carry * p
THEOREM FoldTop ==
    ASSUME NEW p \in Nat, NEW c \in Nat, NEW N \in Nat, N = p + c, NEW carry \in Nat, NEW rest \in Nat
    PROVE  rest + carry * N = (rest + carry * c) + carry * p
  OBVIOUS

\* ---- 4. borrow step: b = (r < pb) ? 1 : 0; out = r - pb + b * B, for r < B and pb <= B
THEOREM BorrowStep ==
    ASSUME NEW B \in Nat, B > 0, NEW r \in 0..(B - 1), NEW pb \in 0..B
    PROVE  LET b == IF r < pb THEN 1 ELSE 0
               out == r - pb + b * B
           IN  /\ out \in 0..(B - 1)
               /\ out - b * B = r - pb
  OBVIOUS
\* ---- 5. the 10 x 25.5 layout: limb k sits at bit Pos(k) = ceil(25.5 k); a product that wraps around sits 255 bits
\* higher than its folded position (the factor 19 = 2^255 mod p).  (The companion law "Pos(i) + Pos(j) = Pos(i + j) + 1
\* exactly when i and j are both odd" - the factor 2 of FieldLimbs32!Coef - is checked by TLC for all limb pairs as an
\* ASSUME of FieldLimbs32; the SMT back ends do not find the parity case split.)
Pos(k) == (51 * k + (k % 2)) \div 2
THEOREM WrapLaw ==
    ASSUME NEW k \in Nat, k >= 10
    PROVE  Pos(k) = 255 + Pos(k - 10)
  BY DEF Pos
=============================================================================
