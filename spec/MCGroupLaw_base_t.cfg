INIT Init
NEXT Next
CONSTANTS Q = 109 Dd = 11 ZSet = {1, 2, 3, 108} ND = 4 NBits = 8 W1 = 5 W2 = 7 Mode = "base" Variant = "code"
INVARIANTS FormulasExact GroupExact BaseExact DoubleExact
CHECK_DEADLOCK FALSE
