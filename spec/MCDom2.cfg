INIT Init
NEXT Next
CONSTANTS AllowPrefixR = FALSE
INVARIANTS LeftInverse
CHECK_DEADLOCK FALSE
