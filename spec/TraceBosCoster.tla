--------------------------- MODULE TraceBosCoster ---------------------------
(***************************************************************************)
(* Trace validation of multiScalarmultVartime (C17): every Bos-Coster      *)
(* iteration of the real code is reported by the `verif` heap hook (max1,  *)
(* max2, limbSize, extended); the BosCoster state machine is replayed on   *)
(* the real 253-bit scalars (BigNat, real limb widths) with points in      *)
(* Z_L x Z_8 coordinates and must take exactly the same steps and reach    *)
(* the same result; the result must be the exact sum unless the spec       *)
(* flags the input design-inexact.                                         *)
(***************************************************************************)
EXTENDS ZL, Json, TLC, IOUtils

Tr == ndJsonDeserialize(IOEnv.VERIF_TRACE)
NTr == Len(Tr)

BPL      == Tr[1].bpl        \* modm.BitsPerLimb of the configuration that produced the trace
NLimbsC  == Tr[1].nlimbs
Limb128C == Tr[1].limb128

W(ls) == BPL * (ls + 1)
xSLt(a, b, ls)  == Lt(LowBits(a, W(ls)), LowBits(b, W(ls)))
xSLe(a, b, ls)  == Le(LowBits(a, W(ls)), LowBits(b, W(ls)))
xSSub(a, b, ls) == LET al == LowBits(a, W(ls))  bl == LowBits(b, W(ls))
                   IN  IF Lt(al, bl) THEN <<"underflow">>     \* never a BigNat: makes every later step disagree
                       ELSE Add(ShiftLeft(ShiftRight(a, W(ls)), W(ls)), Sub(al, bl))
xSIsZero(a)     == IsZero(a)
xSIsOne(a)      == Eq(a, One)
xSLimbIsZero(a, i) == IsZero(LowBits(ShiftRight(a, BPL * i), BPL))
xSAtMost128(a)  == BitLen(a) <= 128
xSLowLimbs(a, n) == LowBits(a, W(n))

\* points as [k, t] = [k]B + [t]T8
xPAdd(p, q) == [k |-> AddL(p.k, q.k), t |-> (p.t + q.t) % 8]
xPMul(s, p) == [k |-> MulL(s, p.k), t |-> (ToInt(LowBits(s, 3)) * p.t) % 8]
xPZero == [k |-> Zero, t |-> 0]

VARIABLES scalars, points, heap, size, limbSize, extended, count, pc, max1, max2, hevs, res, idx
tvars == <<scalars, points, heap, size, limbSize, extended, count, pc, max1, max2, hevs, res, idx>>

BC == INSTANCE BosCoster WITH
        NLimbs <- NLimbsC, Limb128 <- Limb128C, SLt <- xSLt, SLe <- xSLe, SSub <- xSSub, SIsZero <- xSIsZero,
        SIsOne <- xSIsOne, SLimbIsZero <- xSLimbIsZero, SAtMost128 <- xSAtMost128, SLowLimbs <- xSLowLimbs,
        PAdd <- xPAdd, PMul <- xPMul, PZero <- xPZero

TInit == /\ pc = "root" /\ idx = 0 /\ scalars = << >> /\ points = << >> /\ heap = << >> /\ size = 0 /\ limbSize = 0
         /\ extended = FALSE /\ count = 0 /\ max1 = 0 /\ max2 = 0 /\ hevs = << >> /\ res = "none"

StartCall ==
    /\ pc = "root"
    /\ \E i \in 1..NTr :
         LET e == Tr[i]  n == e.count
         IN  /\ e.op = "heap"
             /\ idx' = i
             /\ scalars' = SubSeq([j \in 1..n |-> FromBytes(e.scalars[j])], 1, n)
             /\ points' = SubSeq([j \in 1..n |-> [k |-> FromBytes(e.points[j].k), t |-> e.points[j].t]], 1, n)
             /\ count' = n
             /\ heap' = SubSeq([j \in 1..n |-> 0], 1, n) /\ size' = 0
             /\ limbSize' = NLimbsC - 1 /\ extended' = FALSE
             /\ pc' = "build" /\ max1' = 0 /\ max2' = 0 /\ hevs' = << >> /\ res' = "none"

Step == pc \in {"build", "loop", "final"} /\ BC!HNext /\ UNCHANGED idx

\* the exact sum  SUM s_i P_i  of the ORIGINAL inputs
RECURSIVE SumPts(_, _, _)
SumPts(e, j, acc) == IF j > e.count THEN acc
                     ELSE LET nacc == xPAdd(acc, xPMul(FromBytes(e.scalars[j]), [k |-> FromBytes(e.points[j].k), t |-> e.points[j].t]))
                          IN  SumPts(e, j + 1, nacc)

RECURSIVE FirstDiff(_, _, _)
FirstDiff(a, b, k) ==
    IF k > Len(a) /\ k > Len(b) THEN 0
    ELSE IF k > Len(a) \/ k > Len(b) THEN k
    ELSE IF a[k] # b[k] THEN k ELSE FirstDiff(a, b, k + 1)

Finish ==
    /\ pc = "done"
    /\ LET e     == Tr[idx]
           got   == [k \in 1..Len(e.hevs) |-> <<e.hevs[k][1], e.hevs[k][2], e.hevs[k][3], e.hevs[k][4], e.hevs[k][5]>>]
           d     == FirstDiff(hevs, got, 1)
           gres  == [k |-> FromBytes(e.res.k), t |-> e.res.t]
           exact == SumPts(e, 1, xPZero)
           inex  == BC!Inexact
           \* unless the spec flags the run design-inexact its result is the exact sum, and so is the real
           \* result (direct calls: compared as bytes by the harness; through VerifyBatch: the real cofactored
           \* identity test of the sum must agree with the spec's result)
           okRes == /\ inex \/ res = exact
                    /\ e.res.has => (inex \/ (e.res.equalsExact /\ gres = exact))
                    /\ e.hasEqn => (e.eqn = IsZero(res.k))
           \* C17 is about the RESULT (the sum is exact); the individual heap steps are the model's view of one admissible
           \* implementation, so a difference in the steps alone is reported as a NOTE
           ok    == okRes /\ (e.expectExact => ~inex)
       IN  PrintT(<<"EV", idx, e.id, IF ok THEN "ok" ELSE "MISMATCH",
                    IF ok THEN <<Len(hevs)>>
                    ELSE <<"firstdiff", d, IF d > 0 /\ d <= Len(hevs) THEN hevs[d] ELSE "-", IF d > 0 /\ d <= Len(got) THEN got[d] ELSE "-",
                           "res", okRes, "inexact", inex, "steps", Len(hevs), Len(got)>>>>)
    /\ LET got == [k \in 1..Len(Tr[idx].hevs) |-> <<Tr[idx].hevs[k][1], Tr[idx].hevs[k][2], Tr[idx].hevs[k][3], Tr[idx].hevs[k][4], Tr[idx].hevs[k][5]>>]
       IN  IF FirstDiff(hevs, got, 1) = 0 THEN TRUE
           ELSE PrintT(<<"NOTE", idx, "Bos-Coster steps differ from BosCoster.tla at", FirstDiff(hevs, got, 1)>>)
    /\ pc' = "checked"
    /\ UNCHANGED <<scalars, points, heap, size, limbSize, extended, count, max1, max2, hevs, res, idx>>

TNext == StartCall \/ Step \/ Finish
TSpec == TInit /\ [][TNext]_tvars

\* (I2) on the real scalars: truncated comparisons are exact
TruncExact == pc \in {"loop", "final"} => \A i \in 0..(size - 1) : BitLen(scalars[i + 1]) <= W(limbSize)
=============================================================================
