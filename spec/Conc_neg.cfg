SPECIFICATION Spec
CONSTANTS
  Clients = {1, 2, 3}
  NChunks = 3
  SharedScratch = TRUE
INVARIANTS GlobalsUnchanged ResultsSolo
CHECK_DEADLOCK FALSE
