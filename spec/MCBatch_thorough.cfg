SPECIFICATION Spec
CONSTANTS
  MaxLenAll = 5
  MaxLenFew = 8
  MinBatch = 2
  MaxBatch = 3
INVARIANTS PerEntryExact SummaryIsConjunction IndicesInRange FallbackJustified ValidChunksUseEquation Terminates
CHECK_DEADLOCK FALSE
