---------------------------- MODULE VerifyExactOps ----------------------------
(***************************************************************************)
(* Verify instantiated with exact arithmetic on the real constants.        *)
(* Scalars (S, k) are BigNat values, h is the 512-bit SHA-512 output as a  *)
(* BigNat (reduced mod L here, as modm.Expand does in the code).           *)
(***************************************************************************)
EXTENDS ZL

xSLtL(S)           == Lt(S, L)
xTop3Clear(S)      == BitLen(S) <= 253
xTopNibbleClear(S) == BitLen(S) <= 252
xScMinFastReject(S) == BitLen(S) > 253

\* scMinimal's loop over four 64-bit little-endian words against `order`
OrderWord(i) == LowBits(ShiftRight(L, 64 * (i - 1)), 64)
SWord(S, i)  == LowBits(ShiftRight(S, 64 * (i - 1)), 64)
RECURSIVE xWordLoop(_, _)
xWordLoop(S, i) ==
    LET c == Cmp(SWord(S, i), OrderWord(i))
    IN  IF c = 1 THEN FALSE
        ELSE IF c = -1 THEN TRUE
        ELSE IF i = 1 THEN FALSE
        ELSE xWordLoop(S, i - 1)
xWordCompareLtL(S) == xWordLoop(S, 4)

xKZero(k) == IsZero(ModL(k))
xEqnZero(S, h, kA, kR) == Eq(ModL(S), ModL(Add(Mul(ModL(h), ModL(kA)), kR)))

VP == INSTANCE VerifyPred WITH
        SLtL <- xSLtL, Top3Clear <- xTop3Clear, TopNibbleClear <- xTopNibbleClear,
        ScMinFastReject <- xScMinFastReject,
        WordCompareLtL <- xWordCompareLtL, KZero <- xKZero, EqnZero <- xEqnZero
=============================================================================
