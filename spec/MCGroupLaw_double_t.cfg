INIT Init
NEXT Next
CONSTANTS Q = 53 Dd = 3 ZSet = {1, 7} ND = 4 NBits = 10 W1 = 5 W2 = 7 Mode = "double" Variant = "code"
INVARIANTS FormulasExact GroupExact BaseExact DoubleExact
CHECK_DEADLOCK FALSE
