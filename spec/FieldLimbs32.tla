----------------------------- MODULE FieldLimbs32 -----------------------------
(***************************************************************************)
(* R1 for C18, second layout: the 10 x 25.5-bit field representation of    *)
(* curve25519_donna_32bit.go (386 / arm / force32bit), transcribed with    *)
(* the number of limbs NL (even), the two alternating limb widths WE / WO  *)
(* (26 / 25 in the code), the constant C (p = 2^(NL/2 (WE+WO)) - C), the  *)
(* machine word (Word, the code's uint32) and accumulator (Word2, uint64)  *)
(* as parameters, and checked EXHAUSTIVELY by TLC at scaled sizes          *)
(*     4 limbs of 3,2,3,2 bits (p = 2^10 - 3)   and                        *)
(*     6 limbs of 2,1,2,1,2,1 bits (p = 2^9 - 3).                          *)
(* What differs from the 5x51 layout and is transcribed here:              *)
(*   - limb i sits at bit ceil(25.5 i): the product of two odd limbs       *)
(*     carries an extra factor 2.  Mul gets it by doubling b's odd limbs   *)
(*     IN PLACE in uint32 (r1 *= 2 ...), multiplying by 19 in uint32,      *)
(*     halving again ((r3/2)*19) and re-doubling; the four successive      *)
(*     views of b are the operators R1..R4 below, each checked against     *)
(*     the word size;                                                      *)
(*   - Sub carries only the first SubCarry limbs (0..3 in the code) and    *)
(*     leaves the rest unmasked; AddAfterBasic = AddReduce and             *)
(*     SubAfterBasic = SubReduce carry everything and fold the top carry   *)
(*     times C into limb 0;                                                *)
(*   - the top carry of Mul is truncated to a machine word (uint32(m9>>25)).*)
(* Deliberate deviation: Square / SquareTimes use a different in-place     *)
(* doubling schedule that does not generalise to 4 or 6 limbs; they are    *)
(* modelled by the exact column sums (SqCols) with the same carry chain    *)
(* and the same bounds on the uint32 multiples (x2, x19, x38) they form.   *)
(***************************************************************************)
EXTENDS Integers, Sequences, FiniteSets

CONSTANTS NL, WE, WO, C, Word, Head2, SubCarry, Slack, AMode, BMode, PairMode,
          Variant     \* "code", or a deliberately wrong transcription used as a control: "nohalve" (r3 = r3 * 19)

\* the factor 2 of odd x odd products is 2^(2 WE - (WE + WO)): the scheme needs limbs that differ by exactly one bit
ASSUME NL % 2 = 0 /\ WE = WO + 1 /\ (2 ^ WE) > C

Odd(i)  == i % 2 = 1                                  \* on 0-based limb indices
Wd(i)   == IF Odd(i) THEN WO ELSE WE                  \* width of limb i (0-based)
Pos(i)  == (i \div 2) * (WE + WO) + (IF Odd(i) THEN WE ELSE 0)
MaskI(i) == (2 ^ Wd(i)) - 1
Bits    == (NL \div 2) * (WE + WO)
P       == (2 ^ Bits) - C
Word2   == Word * (2 ^ WE) * Head2                    \* uint64 : uint32 = 2^32, i.e. 64 x (word x widest limb)

L(a, i) == a[i + 1]                                   \* 0-based access to a 1-based tuple

\* the position law behind Mul: the product of limbs i and j sits at Pos(i + j) - or, wrapped around, Bits higher than
\* Pos(i + j - NL) (hence the factor C) - and ONE bit higher when both are odd (hence the factor 2)
ASSUME \A i, j \in 0..(NL - 1) :
          Pos(i) + Pos(j) = (IF i + j < NL THEN Pos(i + j) ELSE Bits + Pos(i + j - NL)) + (IF Odd(i) /\ Odd(j) THEN 1 ELSE 0)

RECURSIVE ValRec(_, _)
ValRec(a, i) == IF i >= NL THEN 0 ELSE L(a, i) * (2 ^ Pos(i)) + ValRec(a, i + 1)
Val(a) == ValRec(a, 0)

TwoP(i)  == IF i = 0 THEN 2 * ((2 ^ WE) - C) ELSE 2 * MaskI(i)      \* twoP0, twoP13579, twoP2468
FourP(i) == IF i = 0 THEN 4 * ((2 ^ WE) - C) ELSE 4 * MaskI(i)      \* fourP0, ...

Vec(f(_)) == [k \in 1..NL |-> f(k - 1)]

\* ---- carry chains.  A chain returns <<limbs, ok>>: ok = every intermediate uint32 value stayed in 0..Word-1
\* (an unsigned expression "bias + a - b + c" is right exactly when its mathematical value is in range).
RECURSIVE FullChain(_, _, _, _, _)
FullChain(t, i, c, acc, ok) ==        \* limbs 0..NL-1 carried and masked, top carry times C added to limb 0
    IF i >= NL THEN <<[acc EXCEPT ![1] = @ + C * c], ok /\ acc[1] + C * c < Word>>
    ELSE LET v == L(t, i) + c
         IN  FullChain(t, i + 1, v \div (2 ^ Wd(i)), Append(acc, v % (2 ^ Wd(i))), ok /\ v >= 0 /\ v < Word)

RECURSIVE PartChain(_, _, _, _, _)
PartChain(t, i, c, acc, ok) ==        \* Sub: limbs 0..SubCarry-1 carried and masked, the carry added to limb SubCarry, rest untouched
    IF i >= NL THEN <<acc, ok>>
    ELSE LET v == L(t, i) + c
         IN  IF i < SubCarry
             THEN PartChain(t, i + 1, v \div (2 ^ Wd(i)), Append(acc, v % (2 ^ Wd(i))), ok /\ v >= 0 /\ v < Word)
             ELSE PartChain(t, i + 1, 0, Append(acc, v), ok /\ v >= 0 /\ v < Word)

Add(a, b)   == <<[k \in 1..NL |-> a[k] + b[k]], \A k \in 1..NL : a[k] + b[k] < Word>>
AddR(a, b)  == FullChain([k \in 1..NL |-> a[k] + b[k]], 0, 0, << >>, TRUE)                    \* AddAfterBasic = AddReduce
Sub(a, b)   == PartChain([k \in 1..NL |-> TwoP(k - 1) + a[k] - b[k]], 0, 0, << >>, TRUE)
SubR(a, b)  == FullChain([k \in 1..NL |-> FourP(k - 1) + a[k] - b[k]], 0, 0, << >>, TRUE)     \* SubAfterBasic = SubReduce
Neg(a)      == FullChain([k \in 1..NL |-> TwoP(k - 1) - a[k]], 0, 0, << >>, TRUE)

\* ---- Mul: the four views of b (r0..r9 in the code) ----
R1(y, i) == L(y, i)
R2(y, i) == IF Odd(i) /\ i <= NL - 3 THEN 2 * L(y, i) ELSE L(y, i)                 \* r1 *= 2; r3 *= 2; r5 *= 2; r7 *= 2
R3(y, i) == IF i = 0 THEN L(y, 0)
            ELSE IF i = 1 THEN C * R2(y, 1)                                       \* r1 *= 19   (now 2 C b1)
            ELSE IF Odd(i) /\ i <= NL - 3 THEN (IF Variant = "nohalve" THEN R2(y, i) ELSE R2(y, i) \div 2) * C   \* r3 = (r3 / 2) * 19
            ELSE C * L(y, i)                                                      \* r2, r4, .., r8, r9 *= 19
R4(y, i) == IF Odd(i) /\ i >= 3 THEN 2 * R3(y, i) ELSE R3(y, i)                    \* r3 *= 2; ..; r9 *= 2

RECURSIVE DirSum(_, _, _, _, _)      \* SUM_{i = lo..hi} view(y, i) * x[k - i]
DirSum(x, y, k, i, view) ==
    IF i > k THEN 0
    ELSE (IF view = 1 THEN R1(y, i) ELSE R2(y, i)) * L(x, k - i) + DirSum(x, y, k, i + 1, view)
RECURSIVE WrapSum(_, _, _, _, _)     \* SUM_{i = k+1..NL-1} view(y, i) * x[k + NL - i]
WrapSum(x, y, k, i, view) ==
    IF i >= NL THEN 0
    ELSE (IF view = 3 THEN R3(y, i) ELSE R4(y, i)) * L(x, k + NL - i) + WrapSum(x, y, k, i + 1, view)

MCol(x, y, k) == IF Odd(k) THEN DirSum(x, y, k, 0, 1) + WrapSum(x, y, k, k + 1, 3)
                 ELSE DirSum(x, y, k, 0, 2) + WrapSum(x, y, k, k + 1, 4)
MulCols(x, y) == [k \in 1..NL |-> MCol(x, y, k - 1)]

ViewsOk(y) == \A i \in 0..(NL - 1) : R2(y, i) < Word /\ R3(y, i) < Word /\ R4(y, i) < Word

\* the reduction shared by Mul and Square: carry through m0..m9, p = uint32(m9 >> 25), m0 = r0 + 19 p, r1 += m0 >> 26
RECURSIVE MChain(_, _, _, _, _)
MChain(m, i, c, acc, ok) ==
    IF i >= NL THEN <<acc, c, ok /\ c < Word>>
    ELSE LET v == L(m, i) + c
         IN  MChain(m, i + 1, v \div (2 ^ Wd(i)), Append(acc, v % (2 ^ Wd(i))), ok /\ v < Word2)
MReduce(m, viewsOk) ==
    LET ch == MChain(m, 0, 0, << >>, viewsOk)
        r  == ch[1]
        m0 == r[1] + ch[2] * C
    IN  <<[k \in 1..NL |-> IF k = 1 THEN m0 % (2 ^ WE) ELSE IF k = 2 THEN r[2] + (m0 \div (2 ^ WE)) ELSE r[k]], ch[3]>>
Mul(x, y) == MReduce(MulCols(x, y), ViewsOk(y))          \* Mul(out, a, b): s = a = x, r = b = y

\* Square by exact column sums (see the deviation above)
Coef(i, j) == IF Odd(i) /\ Odd(j) THEN 2 ELSE 1
RECURSIVE SqSum(_, _, _)
SqSum(x, k, i) ==
    IF i >= NL THEN 0
    ELSE LET j0 == k - i   j1 == k + NL - i
         IN  (IF j0 >= 0 /\ j0 < NL THEN Coef(i, j0) * L(x, i) * L(x, j0) ELSE 0)
           + (IF j1 >= 0 /\ j1 < NL THEN C * Coef(i, j1) * L(x, i) * L(x, j1) ELSE 0)
           + SqSum(x, k, i + 1)
SqViewsOk(x) == \A i \in 0..(NL - 1) : 2 * C * L(x, i) < Word          \* r5*2*19, d7, d9; (d6, d8, r_i*2 are smaller)
Square(x) == MReduce([k \in 1..NL |-> SqSum(x, k - 1, 0)], SqViewsOk(x))

\* ---- Contract ----
RECURSIVE CC(_, _, _, _)
CC(t, i, c, acc) == IF i = NL - 1 THEN Append(acc, L(t, i) + c)
                    ELSE LET v == L(t, i) + c IN CC(t, i + 1, v \div (2 ^ Wd(i)), Append(acc, v % (2 ^ Wd(i))))
CarryOnce(t)  == CC(t, 0, 0, << >>)
CarryFull(t)  == LET u == CarryOnce(t) IN [u EXCEPT ![1] = @ + C * (u[NL] \div (2 ^ Wd(NL - 1))), ![NL] = @ % (2 ^ Wd(NL - 1))]
CarryFinal(t) == LET u == CarryOnce(t) IN [u EXCEPT ![NL] = @ % (2 ^ Wd(NL - 1))]
ContractLimbs(t) ==
    LET t1 == CarryFull(CarryFull(t))
        t2 == CarryFull([t1 EXCEPT ![1] = @ + C])
        t3 == [k \in 1..NL |-> t2[k] + (IF k = 1 THEN (2 ^ WE) - C ELSE (2 ^ Wd(k - 1)) - 1)]
    IN  CarryFinal(t3)
\* the bytes are the OR of the limbs shifted to their positions: right only when every limb is masked
ContractOk(t, want) == LET f == ContractLimbs(t) IN (\A i \in 0..(NL - 1) : L(f, i) >= 0 /\ L(f, i) <= MaskI(i)) /\ Val(f) = want

\* ---- exhaustive exploration ----
VARIABLES a, b, pc
Masked == [k \in 1..NL |-> MaskI(k - 1)]
RAll   == {v \in [1..NL -> 0..((2 ^ WE) - 1)] : \A k \in 1..NL : v[k] <= MaskI(k - 1)}
SlackV == [k \in 1..NL |-> IF k <= 2 THEN MaskI(k - 1) + Slack ELSE MaskI(k - 1)]
RSet   == RAll \cup {SlackV}
BExtreme(v) == (\A k \in 1..NL : v[k] \in {0, 1, MaskI(k - 1) - 1, MaskI(k - 1)}) \/ v = SlackV
BCorner(v)  == (\A k \in 1..NL : v[k] \in {0, MaskI(k - 1)}) \/ v = SlackV
\* BMode = "all" | "extreme" | "corner": which b accompany every a
BSet == IF BMode = "all" THEN RSet ELSE IF BMode = "extreme" THEN {v \in RSet : BExtreme(v)} ELSE {v \in RSet : BCorner(v)}
ZeroV == [k \in 1..NL |-> 0]
Init == a = ZeroV /\ b = ZeroV /\ pc = "start"
ASet == IF AMode = "all" THEN RSet ELSE {v \in RSet : BExtreme(v)}
Next == \/ pc = "start" /\ a' \in ASet /\ b' = b /\ pc' = "a"
        \/ pc = "a" /\ b' \in BSet /\ a' = a /\ pc' = "ab"

IsCarried(t) == \A i \in 0..(NL - 1) : L(t, i) >= 0 /\ L(t, i) <= MaskI(i) + (IF i = 0 THEN C * 8 ELSE 0)

A1 == Add(a, b)
S1 == Sub(a, b)

AddSubExact == pc = "ab" =>
    /\ A1[2] /\ Val(A1[1]) % P = (Val(a) + Val(b)) % P
    /\ S1[2] /\ Val(S1[1]) % P = (Val(a) - Val(b)) % P
    /\ \A i \in 0..(NL - 1) : i < SubCarry => L(S1[1], i) <= MaskI(i)

\* the carried forms, applied to the unreduced classes as the group law does (ge25519: p1p1 -> ...)
ReducedOk(r, want) == r[2] /\ IsCarried(r[1]) /\ Val(r[1]) % P = want % P
ReduceExact == pc = "ab" =>
    /\ ReducedOk(AddR(a, b), Val(a) + Val(b))
    /\ ReducedOk(SubR(a, b), Val(a) - Val(b))
    /\ ReducedOk(Neg(a), 0 - Val(a))
    /\ ReducedOk(AddR(A1[1], S1[1]), Val(A1[1]) + Val(S1[1]))
    /\ ReducedOk(SubR(A1[1], S1[1]), Val(A1[1]) - Val(S1[1]))
    /\ ReducedOk(SubR(S1[1], A1[1]), Val(S1[1]) - Val(A1[1]))
    /\ ReducedOk(AddR(A1[1], a), Val(A1[1]) + Val(a))
    /\ ReducedOk(SubR(b, S1[1]), Val(b) - Val(S1[1]))

\* Mul / Square on the operand classes: reduced, one Add, one Sub, the carried forms
MulOps == <<a, b, A1[1], S1[1], AddR(A1[1], S1[1])[1], SubR(A1[1], S1[1])[1]>>
MulPairs == IF PairMode = "full" THEN (1..6) \X (1..6)
            ELSE IF PairMode = "few" THEN {<<1, 2>>, <<3, 4>>, <<4, 3>>, <<5, 6>>}
            ELSE {<<1, 2>>, <<2, 1>>, <<3, 4>>, <<4, 3>>, <<3, 3>>, <<4, 4>>, <<5, 6>>, <<6, 3>>, <<4, 5>>, <<1, 4>>, <<3, 2>>}
MulOk(x, y, m) ==
    /\ m[2]                                                                   \* no uint32 / uint64 overflow on the way
    /\ Val(m[1]) % P = ((Val(x) % P) * (Val(y) % P)) % P                                   \* exact residue
    /\ \A i \in 0..(NL - 1) : L(m[1], i) >= 0 /\ (i # 1 => L(m[1], i) <= MaskI(i))    \* masked; limb 1 takes the last carry
    /\ ContractOk(m[1], ((Val(x) % P) * (Val(y) % P)) % P)                                 \* and the result serialises canonically
MulExact == pc = "ab" => \A pr \in MulPairs : MulOk(MulOps[pr[1]], MulOps[pr[2]], Mul(MulOps[pr[1]], MulOps[pr[2]]))
SquareExact == pc = "ab" => \A i \in (IF PairMode = "few" THEN {1, 4} ELSE {1, 3, 4, 5, 6}) : MulOk(MulOps[i], MulOps[i], Square(MulOps[i]))
\* the in-place doubling of Mul computes exactly the column sums (both operand orders)
MulIsColumnSum == pc = "ab" => \A k \in 0..(NL - 1) :
    /\ MCol(a, b, k) = MCol(b, a, k)
    /\ MCol(a, a, k) = SqSum(a, k, 0)
    /\ MCol(A1[1], A1[1], k) = SqSum(A1[1], k, 0)

ContractCanonical == pc = "ab" =>
    /\ ContractOk(a, Val(a) % P)
    /\ ContractOk(A1[1], Val(A1[1]) % P)
    /\ ContractOk(S1[1], Val(S1[1]) % P)
    /\ ContractOk(AddR(A1[1], S1[1])[1], Val(AddR(A1[1], S1[1])[1]) % P)
    /\ ContractOk(SubR(b, S1[1])[1], Val(SubR(b, S1[1])[1]) % P)
=============================================================================
