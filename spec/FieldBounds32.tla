---------------------------- MODULE FieldBounds32 ----------------------------
(***************************************************************************)
(* R1 for C18 / C16, real limb sizes: machine-word headroom of the 10x25.5 *)
(* field layout (curve25519_donna_32bit.go) under the point formulas of    *)
(* ge25519.go - the one thing the scaled models FieldLimbs32 / MCGroupLaw  *)
(* cannot decide (19 x limb < 2^32 does not scale).                        *)
(*                                                                         *)
(* An interval analysis evaluated by TLC.  A field value is abstracted by  *)
(* a vector of UPPER BOUNDS of its ten limbs, in units of 1/64 of the limb *)
(* range: bound f for limb i means  limb_i <= f * 2^(Wd(i) - 6)  (Wd = 26  *)
(* for even i, 25 for odd i); a fully masked limb has f = 64.  Carries     *)
(* that are added to an unmasked limb are below 2^12 and are covered by    *)
(* one extra unit (2^19 resp. 2^20).  Every operation of the field file is *)
(* an abstract transformer with a side condition "no uint32 / uint64       *)
(* expression wraps, no subtraction underflows":                           *)
(*   Add        f_x + f_y                     (needs the sum below 2^32)   *)
(*   Sub        limbs 0..3 masked, limb 4: 128 + f + 1, limbs 5..9: 128+f *)
(*              (needs f_y <= 127: the bias 2p dominates the subtrahend)   *)
(*   AddReduce / AddAfterBasic / SubReduce / SubAfterBasic / Neg           *)
(*              fully carried, limb 0 <= mask + 19 * carry                 *)
(*              (Sub..: needs f_y <= 255 resp. 127)                        *)
(*   Mul        needs 19 * b_i (even i), 38 * b_i (odd i) below 2^32 for   *)
(*              the second operand, every column sum m_k below 2^64 and    *)
(*              m_9 below 2^57 (its carry is truncated to a uint32)        *)
(*   Square     the same with both operands equal                          *)
(* The point formulas are transcribed as compositions of the transformers  *)
(* and evaluated on the WORST operand classes that can reach them          *)
(* (transformers are monotone, so the worst class covers all):             *)
(*   point coordinates: outputs of Mul / of a carried operation (65 on     *)
(*   limbs 0 / 1), niels entries: Expand / Neg outputs, pniels entries:    *)
(*   (Sub, Add, Mul, Mul) outputs.                                         *)
(* Result: every side condition holds.  Controls: with a Sub that carries  *)
(* nothing (limbs 0..3 left at 128 + f) the column m_9 of the products of  *)
(* two differences exceeds 2^57 - the partial carry of Sub is what makes   *)
(* add_p1p1 safe; with three additions in a row Mul overflows.             *)
(***************************************************************************)
EXTENDS Integers, Sequences

CONSTANT Variant      \* "code" | "sub_nocarry" | "three_adds"

NL == 10
Odd(i) == i % 2 = 1
\* 2^(32 - Wd(i)) * 64: the bound (in units) at which limb i reaches 2^32
WordU(i) == IF Odd(i) THEN 128 * 64 ELSE 64 * 64
L(a, i) == a[i + 1]
Vec(f(_)) == [k \in 1..NL |-> f(k - 1)]

Masked  == [k \in 1..NL |-> 64]
Carried == [k \in 1..NL |-> IF k = 1 THEN 65 ELSE 64]        \* limb 0 = mask + 19 * carry
MulOut  == [k \in 1..NL |-> IF k = 2 THEN 65 ELSE 64]        \* limb 1 += last carry

\* every transformer returns <<bounds, ok>>
AddB(x, y) == <<[k \in 1..NL |-> x[k] + y[k]], \A i \in 0..(NL - 1) : L(x, i) + L(y, i) < WordU(i)>>
SubB(x, y) ==
    <<[k \in 1..NL |-> IF Variant = "sub_nocarry" THEN 128 + x[k]
                       ELSE IF k <= 4 THEN 64 ELSE IF k = 5 THEN 128 + x[k] + 1 ELSE 128 + x[k]],
      \A i \in 0..(NL - 1) : L(y, i) <= 127 /\ 128 + L(x, i) + 1 < WordU(i)>>
AddRB(x, y) == <<Carried, \A i \in 0..(NL - 1) : L(x, i) + L(y, i) + 1 < WordU(i)>>
SubRB(x, y) == <<Carried, \A i \in 0..(NL - 1) : L(y, i) <= 255 /\ 256 + L(x, i) + 1 < WordU(i)>>
NegB(x)     == <<Carried, \A i \in 0..(NL - 1) : L(x, i) <= 127>>

\* Mul: column k in units of 2^38 (limb products are in units 2^(Wd(i)+Wd(j)-12): 4, 2 or 1 units)
PairW(i, j) == IF ~Odd(i) /\ ~Odd(j) THEN 4 ELSE IF Odd(i) /\ Odd(j) THEN 1 ELSE 2
Coef(i, j)  == IF Odd(i) /\ Odd(j) THEN 2 ELSE 1
RECURSIVE ColU(_, _, _, _)
ColU(x, y, k, i) ==
    IF i >= NL THEN 0
    ELSE LET j0 == k - i   j1 == k + NL - i
         IN  (IF j0 >= 0 /\ j0 < NL THEN Coef(i, j0) * PairW(i, j0) * L(y, i) * L(x, j0) ELSE 0)
           + (IF j1 >= 0 /\ j1 < NL THEN 19 * Coef(i, j1) * PairW(i, j1) * L(y, i) * L(x, j1) ELSE 0)
           + ColU(x, y, k, i + 1)
\* 2^64 = 2^26 units, 2^57 = 2^19 units; one unit for the carry coming in
MulB(x, y) ==
    <<MulOut,
      /\ \A i \in 0..(NL - 1) : 38 * L(y, i) < 64 * 128 /\ (~Odd(i) => 19 * L(y, i) < 64 * 64)      \* 38 b_i 2^25 resp. 19 b_i 2^26 below 2^32
      /\ \A k \in 0..(NL - 1) : ColU(x, y, k, 0) + 2 < 67108864
      /\ ColU(x, y, NL - 1, 0) + 2 < 524288>>
SquareB(x) == MulB(x, x)

\* combine: a formula is a chain of transformers; Ok collects the side conditions
B(r) == r[1]
Ok(r) == r[2]

\* ---- operand classes ----
Coord  == [k \in 1..NL |-> 65]                 \* any coordinate of a point: Mul output or carried value, limbs 0 / 1 up to 65
Const  == Masked                                \* ec2d, ecd, table entries after Expand
NielsE == Coord                                 \* niels entries (Expand, or Neg for the negated t2d)
\* pniels entries as full_to_pniels / pnielsadd leave them
PnYsubX == B(SubB(Coord, Coord))
PnXaddY == B(AddB(Coord, Coord))

\* ---- the point formulas (ge25519.go), each returning the conjunction of all side conditions ----
P1p1ToFullOk(x, y, z, t) == Ok(MulB(x, t)) /\ Ok(MulB(y, z)) /\ Ok(MulB(z, t)) /\ Ok(MulB(x, y))

AddP1p1Ok ==
    LET a == SubB(Coord, Coord)   b == AddB(Coord, Coord)   t == SubB(Coord, Coord)   u == AddB(Coord, Coord)
        a2 == MulB(B(a), B(t))    b2 == MulB(B(b), B(u))
        c  == MulB(Coord, Coord)  c2 == MulB(B(c), Const)
        d  == MulB(Coord, Coord)  d2 == AddB(B(d), B(d))
        rx == SubB(B(b2), B(a2))  ry == AddB(B(b2), B(a2))
        rz == AddRB(B(d2), B(c2)) rt == SubRB(B(d2), B(c2))
    IN  /\ Ok(a) /\ Ok(b) /\ Ok(t) /\ Ok(u) /\ Ok(a2) /\ Ok(b2) /\ Ok(c) /\ Ok(c2) /\ Ok(d) /\ Ok(d2)
        /\ Ok(rx) /\ Ok(ry) /\ Ok(rz) /\ Ok(rt)
        /\ P1p1ToFullOk(B(rx), B(ry), B(rz), B(rt))

DoubleP1p1Ok ==
    LET a == SquareB(Coord)   b == SquareB(Coord)   c == SquareB(Coord)
        c2 == AddRB(B(c), B(c))
        s  == AddB(Coord, Coord)   s2 == SquareB(B(s))
        ry == AddB(B(b), B(a))     rz == SubB(B(b), B(a))
        rx == SubRB(B(s2), B(ry))  rt == SubRB(B(c2), B(rz))
    IN  /\ Ok(a) /\ Ok(c2) /\ Ok(s) /\ Ok(s2) /\ Ok(ry) /\ Ok(rz) /\ Ok(rx) /\ Ok(rt)
        /\ P1p1ToFullOk(B(rx), B(ry), B(rz), B(rt))

\* nielsadd2_p1p1 / pnielsadd_p1p1 (both sign bits give the same classes), q's entries as given
MixedAddOk(qa, qb, qt, zterm) ==
    LET a == SubB(Coord, Coord)   b == AddB(Coord, Coord)
        a2 == MulB(B(a), qa)      x2 == MulB(B(b), qb)
        ry == AddB(B(x2), B(a2))  rx == SubB(B(x2), B(a2))
        c  == MulB(Coord, qt)
        t2 == AddRB(zterm, zterm)
        rz == AddB(B(t2), B(c))   rt == SubB(B(t2), B(c))
    IN  /\ Ok(a) /\ Ok(b) /\ Ok(a2) /\ Ok(x2) /\ Ok(ry) /\ Ok(rx) /\ Ok(c) /\ Ok(t2) /\ Ok(rz) /\ Ok(rt)
        /\ P1p1ToFullOk(B(rx), B(ry), B(rz), B(rt))
        /\ P1p1ToFullOk(B(rx), B(ry), B(rt), B(rz))          \* sign bit 1: z and t change places
NielsAdd2P1p1Ok  == MixedAddOk(NielsE, NielsE, NielsE, Coord)
PnielsAddP1p1Ok  == Ok(MulB(Coord, Coord)) /\ MixedAddOk(PnYsubX, PnXaddY, MulOut, MulOut) /\ MixedAddOk(PnXaddY, PnYsubX, MulOut, MulOut)

\* nielsadd2 (in place, full result)
NielsAdd2Ok ==
    LET a == SubB(Coord, Coord)   b == AddB(Coord, Coord)
        a2 == MulB(B(a), NielsE)  e0 == MulB(B(b), NielsE)
        h == AddB(B(e0), B(a2))   e == SubB(B(e0), B(a2))
        c == MulB(Coord, NielsE)
        f0 == AddB(Coord, Coord)
        g == AddRB(B(f0), B(c))   f == SubRB(B(f0), B(c))
    IN  /\ Ok(a) /\ Ok(b) /\ Ok(a2) /\ Ok(e0) /\ Ok(h) /\ Ok(e) /\ Ok(c) /\ Ok(f0) /\ Ok(g) /\ Ok(f)
        /\ Ok(MulB(B(e), B(f))) /\ Ok(MulB(B(h), B(g))) /\ Ok(MulB(B(g), B(f))) /\ Ok(MulB(B(e), B(h)))

\* pnielsadd (pniels result)
PnielsAddOk ==
    LET a == SubB(Coord, Coord)   b == AddB(Coord, Coord)
        a2 == MulB(B(a), PnYsubX) x0 == MulB(B(b), PnXaddY)
        y == AddB(B(x0), B(a2))   x == SubB(B(x0), B(a2))
        c == MulB(Coord, MulOut)
        t0 == MulB(Coord, MulOut) t1 == AddB(B(t0), B(t0))
        z == AddRB(B(t1), B(c))   t == SubRB(B(t1), B(c))
        X3 == MulB(B(x), B(t))    Y3 == MulB(B(y), B(z))
    IN  /\ Ok(a) /\ Ok(b) /\ Ok(a2) /\ Ok(x0) /\ Ok(y) /\ Ok(x) /\ Ok(c) /\ Ok(t0) /\ Ok(t1) /\ Ok(z) /\ Ok(t)
        /\ Ok(X3) /\ Ok(Y3) /\ Ok(MulB(B(z), B(t))) /\ Ok(MulB(B(x), B(y)))
        /\ Ok(SubB(B(Y3), B(X3))) /\ Ok(AddB(B(X3), B(Y3))) /\ Ok(MulB(MulOut, Const))

\* geSub (cofactor_equal.go)
GeSubOk ==
    LET rx0 == AddB(Coord, Coord)   ry0 == SubB(Coord, Coord)
        rz0 == MulB(B(rx0), PnYsubX) ry1 == MulB(B(ry0), PnXaddY)
        rt0 == MulB(MulOut, Coord)
        zz  == MulB(Coord, MulOut)   t0 == AddB(B(zz), B(zz))
        rx == SubB(B(rz0), B(ry1))   ry == AddB(B(rz0), B(ry1))
        rz == SubRB(B(t0), B(rt0))   rt == AddRB(B(t0), B(rt0))
    IN  /\ Ok(rx0) /\ Ok(ry0) /\ Ok(rz0) /\ Ok(ry1) /\ Ok(rt0) /\ Ok(zz) /\ Ok(t0) /\ Ok(rx) /\ Ok(ry) /\ Ok(rz) /\ Ok(rt)
        /\ P1p1ToFullOk(B(rx), B(ry), B(rz), B(rt))

\* ScalarmultBaseNiels' start: x = SubReduce(xaddy, ysubx), y = AddReduce; u = (y + z) / (z - y) of ScalarBaseMult
StartOk == Ok(SubRB(NielsE, NielsE)) /\ Ok(AddRB(NielsE, NielsE)) /\ Ok(MulB(NielsE, Const))
MontOk  == LET s == AddB(Coord, Coord)  d == SubB(Coord, Coord) IN Ok(s) /\ Ok(d) /\ Ok(SquareB(B(d))) /\ Ok(MulB(B(s), MulOut))

SubReduceB(x, y) == SubRB(x, y)
AddReduceB(x, y) == AddRB(x, y)

\* UnpackNegativeVartime / Pack (ge25519.go:294-357): the decode formula and the encode formula
UnpackOk ==
    LET y == Masked   one == Masked
        num0 == SquareB(y)            den0 == MulB(B(num0), Const)
        num == SubReduceB(B(num0), one)   den == AddB(B(den0), one)
        t == SquareB(B(den))          d3 == MulB(B(t), B(den))
        x0 == SquareB(B(d3))          x1 == MulB(B(x0), B(den))      x2 == MulB(B(x1), B(num))
        x3 == SquareB(B(x2))          \* PowTwo252m3: squarings and multiplications of Mul outputs
        x4 == MulB(MulOut, B(d3))     x5 == MulB(B(x4), B(num))
        t2 == SquareB(B(x5))          t3 == MulB(B(t2), B(den))
        root == SubReduceB(B(t3), B(num))   t4 == AddReduceB(B(t3), B(num))
        x6 == MulB(B(x5), Const)      xn == NegB(MulOut)
    IN  /\ Ok(num0) /\ Ok(den0) /\ Ok(num) /\ Ok(den) /\ Ok(t) /\ Ok(d3) /\ Ok(x0) /\ Ok(x1) /\ Ok(x2) /\ Ok(x3) /\ Ok(x4) /\ Ok(x5)
        /\ Ok(t2) /\ Ok(t3) /\ Ok(root) /\ Ok(t4) /\ Ok(x6) /\ Ok(xn) /\ Ok(MulB(B(xn), y)) /\ Ok(MulB(MulOut, y))
PackOk == Ok(SquareB(Coord)) /\ Ok(MulB(MulOut, Coord)) /\ Ok(MulB(Coord, MulOut))

\* control: three additions in a row feed Mul
ThreeAddsOk == LET s == AddB(B(AddB(Coord, Coord)), Coord) IN Ok(MulB(B(s), B(s)))

AllOk == /\ Ok(NegB(Masked)) /\ AddP1p1Ok /\ DoubleP1p1Ok /\ NielsAdd2P1p1Ok /\ PnielsAddP1p1Ok /\ NielsAdd2Ok /\ PnielsAddOk /\ GeSubOk /\ StartOk /\ MontOk /\ UnpackOk /\ PackOk
         /\ (Variant = "three_adds" => ThreeAddsOk)

VARIABLE done
Init == done = FALSE
Next == done' = TRUE
NoOverflow == AllOk
=============================================================================
