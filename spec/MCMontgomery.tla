----------------------------- MODULE MCMontgomery -----------------------------
(***************************************************************************)
(* R1 for C11 / C12: the relation between the two ways extra/x25519        *)
(* computes a Diffie-Hellman value, checked by TLC over small fields on     *)
(* curves of edwards25519's shape (see MCGroupLaw):                         *)
(*   - the generic path is the RFC 7748 Montgomery ladder on the u          *)
(*     coordinate (x/crypto's ScalarMult, re-canonicalised by the library), *)
(*   - the base-point path (ScalarBaseMult, x25519.go:84-112) multiplies    *)
(*     on the Edwards curve and maps  u = (y + z) / (z - y)  with           *)
(*     Recip(0) = 0,                                                        *)
(*   - EdPublicKeyToX25519 maps a decoded public key with u = (1+y)/(1-y).  *)
(* Properties, for EVERY point P of the curve (all orders, the neutral      *)
(* element and the 2-torsion point included) and EVERY scalar below 2^NB:   *)
(*     Ladder(k, U(P)) = U([k]P)                (fast path = ladder;         *)
(*                                               conversions commute)        *)
(* and for EVERY u of the field - on the curve, on its twist, 0 - and every *)
(* pair of scalars                                                          *)
(*     Ladder(a, Ladder(b, u)) = Ladder(b, Ladder(a, u))    (DH agreement)  *)
(*     Ladder(8 a, u) = 0 for the inputs of low order       (the all-zero   *)
(*                                               output X25519 rejects)      *)
(* The Montgomery constant is derived from d: A = 2 (1 - d) / (1 + d),      *)
(* a24 = (A - 2) / 4  (486662 and 121665 for edwards25519).                  *)
(***************************************************************************)
EXTENDS Integers, Sequences, FiniteSets

CONSTANTS Q, Dd, NB,
          Variant      \* "code", or a control: "a24" ((A + 2) / 4 in the place of (A - 2) / 4), "noswap" (no final conditional swap)

F(v) == v % Q
InvT == SubSeq([z \in 1..(Q - 1) |-> CHOOSE w \in 1..(Q - 1) : (z * w) % Q = 1], 1, Q - 1)
Inv0(z) == IF F(z) = 0 THEN 0 ELSE InvT[F(z)]            \* Recip: z^(q-2), 0 for 0

OnCurve(x, y) == F(y * y - x * x) = F(1 + Dd * F(x * x) * F(y * y))
E == {p \in (0..(Q - 1)) \X (0..(Q - 1)) : OnCurve(p[1], p[2])}
Neutral == <<0, 1>>
AAdd(P, R) ==
    LET t == F(Dd * F(P[1] * R[1]) * F(P[2] * R[2]))
    IN  <<F(F(P[1] * R[2] + P[2] * R[1]) * Inv0(1 + t)), F(F(P[2] * R[2] + P[1] * R[1]) * Inv0(1 - t))>>
RECURSIVE AMul(_, _)
AMul(k, P) == IF k = 0 THEN Neutral ELSE AAdd(P, AMul(k - 1, P))

MA  == F(F(2 * (1 - Dd)) * Inv0(1 + Dd))
A24 == IF Variant = "a24" THEN F(F(MA + 2) * Inv0(4)) ELSE F(F(MA - 2) * Inv0(4))
U(P) == F(F(1 + P[2]) * Inv0(1 - P[2]))                    \* (y + z) / (z - y) with z = 1

\* RFC 7748 section 5, bits NB-1 .. 0
Bit(k, t) == (k \div (2 ^ t)) % 2
RECURSIVE Step(_, _, _, _, _, _, _, _)
Step(k, x1, x2, z2, x3, z3, swap, t) ==
    IF t < 0
    THEN LET fx2 == IF swap = 1 /\ Variant # "noswap" THEN x3 ELSE x2
             fz2 == IF swap = 1 /\ Variant # "noswap" THEN z3 ELSE z2
         IN  F(fx2 * Inv0(fz2))
    ELSE LET kt == Bit(k, t)
             sw == (swap + kt) % 2
             a2 == IF sw = 1 THEN x3 ELSE x2     c2 == IF sw = 1 THEN z3 ELSE z2
             a3 == IF sw = 1 THEN x2 ELSE x3     c3 == IF sw = 1 THEN z2 ELSE z3
             A  == F(a2 + c2)    AA == F(A * A)
             B  == F(a2 - c2)    BB == F(B * B)
             EE == F(AA - BB)
             C  == F(a3 + c3)    D  == F(a3 - c3)
             DA == F(D * A)      CB == F(C * B)
         IN  Step(k, x1, F(AA * BB), F(EE * F(AA + F(A24 * EE))), F(F(DA + CB) * F(DA + CB)), F(x1 * F(F(DA - CB) * F(DA - CB))), kt, t - 1)
Ladder(k, u) == Step(k, u, 1, 0, u, 1, 0, NB - 1)

VARIABLES pt, uu, ka, kb, pc
Init == pt = Neutral /\ uu = 0 /\ ka = 0 /\ kb = 0 /\ pc = "start"
Next == \/ pc = "start" /\ pt' \in E /\ pc' = "p" /\ UNCHANGED <<uu, ka, kb>>
        \/ pc = "p" /\ ka' \in 0..((2 ^ NB) - 1) /\ pc' = "pk" /\ UNCHANGED <<pt, uu, kb>>
        \/ pc = "start" /\ uu' \in 0..(Q - 1) /\ pc' = "u" /\ UNCHANGED <<pt, ka, kb>>
        \/ pc = "u" /\ ka' \in 0..((2 ^ NB) - 1) /\ pc' = "ua" /\ UNCHANGED <<pt, uu, kb>>
        \/ pc = "ua" /\ kb' \in 0..((2 ^ NB) - 1) /\ pc' = "uab" /\ UNCHANGED <<pt, uu, ka>>

ASSUME F(MA * MA - 4) # 0                                   \* a genuine Montgomery curve

LadderIsEdwards == pc = "pk" => Ladder(ka, U(pt)) = U(AMul(ka, pt))
Agreement == pc = "uab" => Ladder(ka, Ladder(kb, uu)) = Ladder(kb, Ladder(ka, uu))
\* inputs of low order: u = 0 and the u of the points whose order divides 8 (the twist has its own; they are found by the ladder itself)
LowOrderU(u) == Ladder(8, u) = 0
LowOrderRejected == pc = "uab" => (LowOrderU(uu) => Ladder(8 * (ka % (2 ^ (NB - 3))), uu) = 0)
=============================================================================
