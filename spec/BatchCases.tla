----------------------------- MODULE BatchCases -----------------------------
(***************************************************************************)
(* R2: abstract case matrix for VerifyBatch, enumerated by TLC.            *)
(*   n       batch length (every chunking into 64-entry blocks + remainder)*)
(*   bad     set of <<position, kind>>; positions are derived from the     *)
(*           chunk structure of n: first, second, middle, last of first    *)
(*           chunk, first of next chunk, first of the remainder, last      *)
(*   kind    the kinds of badness C06 lists                                *)
(*   variant / zip / entropy                                               *)
(***************************************************************************)
EXTENDS Integers, Sequences, SequencesExt, FiniteSets, TLC, Json, IOUtils

Sizes == (0..5) \cup (63..69) \cup (127..131) \cup {200}

Kinds == {"wrongMsg", "flipR", "flipS", "flipKey", "SplusL", "smallA", "smallR", "undecA", "undecR",
          "truncKey", "truncSig", "longSig", "nilKey", "nilSig", "mixedA", "mixedR", "SplusLbad"}
PhKinds == {"digestLen63", "digestLen65", "digestLen0"}

Positions(n) == {p \in {0, 1, n \div 2, 62, 63, 64, 65, 127, 128, 64 * (n \div 64), n - 2, n - 1} : p >= 0 /\ p < n}

Variants == {"pure", "ctx", "ph"}

Single == UNION {
            {[n |-> n, variant |-> v, zip |-> z, entropy |-> "random", bad |-> {<<p, k>>}] :
               v \in Variants, z \in BOOLEAN, p \in Positions(n), k \in Kinds}
              \cup
            {[n |-> n, variant |-> "ph", zip |-> z, entropy |-> "random", bad |-> {<<p, k>>}] :
               z \in BOOLEAN, p \in Positions(n), k \in PhKinds} : n \in Sizes}

\* two bad entries: same chunk / different chunks / chunk + remainder
PairKinds == {"wrongMsg", "SplusL", "truncSig", "smallA", "smallR", "flipS", "nilKey"}
Double == UNION {
            {[n |-> n, variant |-> v, zip |-> z, entropy |-> "random", bad |-> {<<p1, k1>>, <<p2, k2>>}] :
               v \in {"pure", "ph"}, z \in BOOLEAN, p1 \in Positions(n), p2 \in Positions(n), k1 \in PairKinds, k2 \in PairKinds} : n \in {4, 5, 65, 68, 130}}

\* runs of adjacent entries that share their key, across chunk boundaries: the same small-order key (refused in
\* default mode, admissible under ZIP-215) and the same honest signer
Runs(n) == {r \in {{62, 63, 64, 65}, {63, 64}, {0, 1}, {n - 2, n - 1}, {127, 128, 129}, {60, 61, 62, 63}} : \A p \in r : p >= 0 /\ p < n}
SameKeyRuns == UNION {
            {[n |-> n, variant |-> v, zip |-> z, entropy |-> "random", bad |-> {<<p, k>> : p \in r}] :
               v \in {"pure", "ctx"}, z \in BOOLEAN, r \in Runs(n), k \in {"smallA0", "sameSigner"}} : n \in {5, 65, 68, 130, 131}}

\* entropy sources that deliver their bytes in small pieces (legal io.Readers): io.ReadFull must assemble them
Chunky == UNION {
            {[n |-> n, variant |-> "pure", zip |-> z, entropy |-> e, bad |-> {<<p, k>>}] :
               z \in BOOLEAN, e \in {"piece1", "piece7", "piece100"}, p \in Positions(n), k \in {"wrongMsg", "flipS", "SplusLbad"}} : n \in {4, 5, 9, 64, 68}}
          \cup {[n |-> n, variant |-> "ctx", zip |-> FALSE, entropy |-> e, bad |-> {}] : n \in {4, 7, 64, 65, 130}, e \in {"piece1", "piece7", "piece100"}}

AllValid == {[n |-> n, variant |-> v, zip |-> z, entropy |-> e, bad |-> {}] :
               n \in (0..70) \cup (126..132) \cup {191, 192, 193, 200, 256, 257}, v \in Variants, z \in BOOLEAN, e \in {"random", "zero", "ones"}}

\* entropy source failing at chunk c (1-based); unsupported hash selector; over-long context; count mismatch
Errors == {[n |-> n, variant |-> "pure", zip |-> FALSE, entropy |-> e, bad |-> {}] :
             n \in {4, 64, 65, 130}, e \in {"fail1", "fail2", "fail3", "short1", "short2"}}
          \cup {[n |-> n, variant |-> v, zip |-> FALSE, entropy |-> "random", bad |-> {}] :
             n \in {0, 1, 3, 4, 5, 65}, v \in {"badhash", "longctx", "countKeys", "countMsgs", "countSigs", "ctx255", "ctx256"}}

Cases == Single \cup Double \cup Chunky \cup SameKeyRuns \cup AllValid \cup Errors

ToRec(c) == [n |-> c.n, variant |-> c.variant, zip |-> c.zip, entropy |-> c.entropy,
             bad |-> SetToSeq({[pos |-> b[1], kind |-> b[2]] : b \in c.bad})]

ASSUME PrintT(<<"CASES", Cardinality(Cases)>>)
ASSUME ndJsonSerialize(IOEnv.VERIF_CASES, SetToSeq({ToRec(c) : c \in Cases}))
=============================================================================
