INIT Init
NEXT Next
CONSTANTS NL = 6 WE = 2 WO = 1 C = 1 Word = 256 Head2 = 64 SubCarry = 4 Slack = 1 AMode = "all" BMode = "corner" PairMode = "few" Variant = "nohalve"
INVARIANTS AddSubExact ReduceExact MulExact SquareExact MulIsColumnSum ContractCanonical
CHECK_DEADLOCK FALSE
