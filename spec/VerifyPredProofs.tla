-------------------------- MODULE VerifyPredProofs --------------------------
EXTENDS VerifyPred, TLAPS

\* the predicate with the mode as an explicit argument (what Accept does with in.zip)
AcceptM(in, zip) ==
    /\ in.siglen = SigLen
    /\ SLtL(in.S)
    /\ in.A.dec
    /\ in.R.dec
    /\ zip \/ (~SmallOrder(in.A) /\ ~SmallOrder(in.R))
    /\ Equation(in)

THEOREM ZipWidens == ASSUME NEW in PROVE AcceptM(in, FALSE) => AcceptM(in, TRUE)
  BY DEF AcceptM

THEOREM ZipDiffersOnlyOnSmall ==
    ASSUME NEW in PROVE (AcceptM(in, FALSE) # AcceptM(in, TRUE)) => (SmallOrder(in.A) \/ SmallOrder(in.R))
  BY DEF AcceptM

\* Accept on a record whose zip field is set is AcceptM
THEOREM AcceptIsAcceptM ==
    ASSUME NEW in, NEW z \in BOOLEAN,
           DOMAIN in = {"siglen", "S", "A", "R", "h", "zip", "eq8"}
    PROVE  Accept([in EXCEPT !.zip = z]) = AcceptM(in, z)
  BY DEF Accept, AcceptM, Equation
=============================================================================
