INIT Init
NEXT Next
CONSTANTS NL = 3 W = 3 T = 2 B = 1 WordBits = 4 Variant = "nocarrycol" Moduli = {64, 67, 100, 127}
INVARIANTS ExpandExact Q3Exact MulAddExact
CHECK_DEADLOCK FALSE
