------------------------------ MODULE MCOptions ------------------------------
(***************************************************************************)
(* R1 for C07: properties of the option table and of the dom2 layout,      *)
(* checked exhaustively by TLC over a small alphabet.                      *)
(***************************************************************************)
EXTENDS SignSpec, FiniteSets, TLC

CtxLens == {0, 1, 2, 254, 255, 256, 257, 1000}
MsgLens == {0, 63, 64, 65}
Hashes  == {0, 512, 256, 99}
Styles  == {"hash0", "sha512", "options"}

\* contexts over a two-symbol alphabet, lengths 0..3, for the injectivity argument
Alphabet == {0, 1}
Ctxs == UNION {[1..n -> Alphabet] : n \in 0..3}
Pairs == {<<"pure", << >> >>} \cup {<<"ctx", c>> : c \in Ctxs \ {<< >>}} \cup {<<"ph", c>> : c \in Ctxs}

\* (1) distinct (variant, context) pairs have distinct dom2 strings, none is a prefix of another
\*     non-empty one (so the hash inputs of two prefixed variants differ), and only "pure" is empty
IsPrefixOf(a, b) == Len(a) <= Len(b) /\ SubSeq(b, 1, Len(a)) = a
ASSUME Dom2Injective == \A p, q \in Pairs : p # q => Dom2(p[1], p[2]) # Dom2(q[1], q[2])
ASSUME Dom2PrefixFree == \A p, q \in Pairs : (p # q /\ p[1] # "pure" /\ q[1] # "pure") => ~IsPrefixOf(Dom2(p[1], p[2]), Dom2(q[1], q[2]))
ASSUME Dom2PureEmpty == \A p \in Pairs : (Dom2(p[1], p[2]) = << >>) <=> p[1] = "pure"
ASSUME Dom2PrefixLen == Len(Dom2Prefix) = 32

\* (2) the option table: contexts of 1..255 bytes are admitted, longer ones refused everywhere;
\*     an empty context without pre-hash selects plain Ed25519; ph admits only 64-byte digests
ASSUME CtxContract == \A h \in Hashes, cl \in CtxLens, ml \in MsgLens :
          (cl > 255 => Outcome("options", h, cl, ml) = "errCtx")
          /\ (cl \in 1..255 /\ h = 0 => Outcome("options", h, cl, ml) = "ctx")
          /\ (cl = 0 /\ h = 0 => Outcome("options", h, cl, ml) = "pure")
          /\ (cl <= 255 /\ h = 512 => Outcome("options", h, cl, ml) = (IF ml = 64 THEN "ph" ELSE "errDigest"))
          /\ (cl <= 255 /\ h \notin {0, 512} => Outcome("options", h, cl, ml) = "errHash")
ASSUME Surfaces == \A o \in {"errCtx", "errDigest", "errHash"} :
          Surface("Sign", o) = "error" /\ Surface("VerifyWithOptions", o) = "panic"
          /\ Surface("VerifyBatch", o) = (IF o = "errCtx" THEN "error" ELSE "allfalse")

\* a trivial behaviour so that TLC reports states: enumerate the table
VARIABLE row
Init == row \in [style : Styles, hash : Hashes, cl : CtxLens, ml : MsgLens]
Next == UNCHANGED row
TableTotal == Outcome(row.style, row.hash, row.cl, row.ml) \in {"pure", "ctx", "ph", "errCtx", "errDigest", "errHash"}
=============================================================================
