INIT Init
NEXT Next
CONSTANTS Moduli = {65, 66, 77, 91, 100, 126, 127}
INVARIANTS QuotientEstimate TwoSubtractionsSuffice Canonical
CHECK_DEADLOCK FALSE
