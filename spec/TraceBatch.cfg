SPECIFICATION TSpec
INVARIANTS SummaryIsConjunction IndicesInRange
CHECK_DEADLOCK FALSE
