------------------------------- MODULE BigNat -------------------------------
(***************************************************************************)
(* Exact natural-number arithmetic for TLC.                                *)
(*                                                                         *)
(* TLC integers are 32-bit, so 253/255/512-bit quantities are represented  *)
(* as little-endian sequences of base-4096 digits (12 bits per digit): the *)
(* column sums of a 43 x 43 digit product stay below 2^31.  Everything is  *)
(* plain TLA+; no Java module overrides are used, so these definitions are *)
(* the only source of truth for the arithmetic the trace specs rely on.    *)
(*                                                                         *)
(* Representation: <<d1, ..., dn>> denotes  SUM d_i * 4096^(i-1).          *)
(* Values need not be normalised (trailing zero digits are allowed) on     *)
(* input; every operator returns a normalised value.                       *)
(*                                                                         *)
(* Evaluation note: TLC evaluates an operator ARGUMENT at most once, but   *)
(* re-evaluates a LET-bound name on every reference.  Anything expensive   *)
(* that is used more than once is therefore passed through a helper        *)
(* operator (the ...Step / ...1 operators below) instead of being LET-     *)
(* bound.  The meaning is the same.                                        *)
(***************************************************************************)
EXTENDS Integers, Sequences

BASE  == 4096
DBITS == 12

WellFormed(a) == \A i \in 1..Len(a) : a[i] \in 0..(BASE - 1)

Dig(a, i) == IF i >= 1 /\ i <= Len(a) THEN a[i] ELSE 0

RECURSIVE NormLen(_, _)
NormLen(a, n) == IF n = 0 THEN 0 ELSE IF a[n] # 0 THEN n ELSE NormLen(a, n - 1)

\* SubSeq also turns a function expression [i \in 1..n |-> ...] into an explicit tuple; TLC would
\* otherwise keep it unevaluated and recompute a digit on every access.
Norm(a) == SubSeq(a, 1, NormLen(a, Len(a)))

Zero == << >>
One  == <<1>>
IsZero(a) == NormLen(a, Len(a)) = 0

\* small (TLC-sized) non-negative integer -> BigNat
RECURSIVE FromInt(_)
FromInt(n) == IF n = 0 THEN << >> ELSE <<((n) % BASE)>> \o FromInt(n \div BASE)

\* BigNat known to be small -> TLC integer (caller guarantees < 2^31)
RECURSIVE ToIntRec(_, _)
ToIntRec(a, i) == IF i > Len(a) THEN 0 ELSE a[i] + BASE * ToIntRec(a, i + 1)
ToInt(a) == ToIntRec(Norm(a), 1)

Max(x, y) == IF x >= y THEN x ELSE y
Min(x, y) == IF x <= y THEN x ELSE y

(***************************************************************************)
(* Comparison: -1, 0, 1                                                    *)
(***************************************************************************)
RECURSIVE CmpRec(_, _, _)
CmpRec(a, b, i) ==
    IF i = 0 THEN 0
    ELSE LET x == Dig(a, i)  y == Dig(b, i)
         IN  IF x < y THEN -1 ELSE IF x > y THEN 1 ELSE CmpRec(a, b, i - 1)

Cmp(a, b) == CmpRec(a, b, Max(Len(a), Len(b)))
Lt(a, b)  == Cmp(a, b) = -1
Le(a, b)  == Cmp(a, b) # 1
Eq(a, b)  == Cmp(a, b) = 0

(***************************************************************************)
(* Addition and subtraction (Sub requires a >= b)                          *)
(***************************************************************************)
RECURSIVE AddRec(_, _, _, _, _)
AddStep(a, b, i, n, s) == <<((s) % BASE)>> \o AddRec(a, b, i + 1, s \div BASE, n)
AddRec(a, b, i, c, n) ==
    IF i > n THEN (IF c = 0 THEN << >> ELSE <<c>>)
    ELSE AddStep(a, b, i, n, Dig(a, i) + Dig(b, i) + c)

Add(a, b) == Norm(AddRec(a, b, 1, 0, Max(Len(a), Len(b))))

RECURSIVE SubRec(_, _, _, _, _)
SubStep(a, b, i, n, s) == IF s < 0 THEN <<s + BASE>> \o SubRec(a, b, i + 1, 1, n)
                                   ELSE <<s>> \o SubRec(a, b, i + 1, 0, n)
SubRec(a, b, i, br, n) ==
    IF i > n THEN << >>
    ELSE SubStep(a, b, i, n, Dig(a, i) - Dig(b, i) - br)

Sub(a, b) == Norm(SubRec(a, b, 1, 0, Max(Len(a), Len(b))))

(***************************************************************************)
(* Multiplication (schoolbook by columns; column sums < 2^31 as long as    *)
(* the shorter operand has at most 127 digits)                             *)
(***************************************************************************)
RECURSIVE ColSum(_, _, _, _, _)
ColSum(a, b, k, i, hi) ==    \* SUM_{j=i..hi} a[j] * b[k - j + 1]    (1-based, column k)
    IF i > hi THEN 0 ELSE a[i] * b[k - i + 1] + ColSum(a, b, k, i + 1, hi)

RECURSIVE MulRec(_, _, _, _, _)
MulStep(a, b, k, n, s) == <<((s) % BASE)>> \o MulRec(a, b, k + 1, s \div BASE, n)
MulRec(a, b, k, c, n) ==     \* columns k..n with incoming carry c
    IF k > n THEN FromInt(c)
    ELSE MulStep(a, b, k, n, ColSum(a, b, k, Max(1, k - Len(b) + 1), Min(k, Len(a))) + c)

Mul(a, b) ==
    IF Len(a) = 0 \/ Len(b) = 0 THEN << >>
    ELSE Norm(MulRec(a, b, 1, 0, Len(a) + Len(b) - 1))

MulSmall(a, m) == Mul(a, FromInt(m))

(***************************************************************************)
(* Powers of two, shifts, bit access                                       *)
(***************************************************************************)
RECURSIVE Pow2Int(_)
Pow2Int(n) == IF n = 0 THEN 1 ELSE 2 * Pow2Int(n - 1)      \* n <= 30

Zeros(n) == [i \in 1..n |-> 0]

Pow2(n) == Zeros(n \div DBITS) \o <<Pow2Int(((n) % DBITS))>>

ShiftLeft(a, n) ==           \* a * 2^n
    LET q == n \div DBITS   r == ((n) % DBITS)
    IN  IF IsZero(a) THEN << >>
        ELSE Zeros(q) \o (IF r = 0 THEN Norm(a) ELSE MulSmall(a, Pow2Int(r)))

ShiftRight(a, n) ==          \* a \div 2^n
    LET q  == n \div DBITS   r == ((n) % DBITS)
        lo == Pow2Int(r)     hi == Pow2Int(DBITS - r)
        m  == Len(a) - q
    IN  IF m <= 0 THEN << >>
        ELSE Norm([i \in 1..m |-> (a[i + q] \div lo) + (((Dig(a, i + q + 1)) % lo) * hi)])

LowBits(a, n) ==             \* a mod 2^n
    LET q == n \div DBITS   r == ((n) % DBITS)
    IN  IF Len(a) <= q THEN Norm(a)
        ELSE Norm(SubSeq(a, 1, q) \o (IF r = 0 THEN << >> ELSE <<((a[q + 1]) % Pow2Int(r))>>))

Bit(a, i) == ((Dig(a, (i \div DBITS) + 1) \div Pow2Int(((i) % DBITS))) % 2)    \* i-th bit, i >= 0

RECURSIVE BitLenInt(_)
BitLenInt(n) == IF n = 0 THEN 0 ELSE 1 + BitLenInt(n \div 2)
BitLen1(b) == IF Len(b) = 0 THEN 0 ELSE (Len(b) - 1) * DBITS + BitLenInt(b[Len(b)])
BitLen(a) == BitLen1(Norm(a))

IsOdd(a) == ((Dig(a, 1)) % 2) = 1

(***************************************************************************)
(* Bytes (little-endian sequences of 0..255)  <->  BigNat                  *)
(* 3 bytes = 2 digits.                                                     *)
(***************************************************************************)
ByteAt(bs, i) == IF i >= 1 /\ i <= Len(bs) THEN bs[i] ELSE 0

FromBytes(bs) ==
    LET nd == ((Len(bs) * 8) + DBITS - 1) \div DBITS
        D(j) == \* j-th digit, j = 0..nd-1
            LET t == j \div 2   base3 == 3 * t
            IN  IF ((j) % 2) = 0
                THEN ByteAt(bs, base3 + 1) + ((ByteAt(bs, base3 + 2)) % 16) * 256
                ELSE (ByteAt(bs, base3 + 2) \div 16) + ByteAt(bs, base3 + 3) * 16
    IN  Norm([j \in 1..nd |-> D(j - 1)])

ToBytes(a, n) ==             \* the low n bytes of a
    LET B(k) == \* k-th byte, k = 0..n-1
            LET t == k \div 3   r == ((k) % 3)   d0 == Dig(a, 2 * t + 1)   d1 == Dig(a, 2 * t + 2)
            IN  IF r = 0 THEN ((d0) % 256)
                ELSE IF r = 1 THEN (d0 \div 256) + ((d1) % 16) * 16
                ELSE d1 \div 16
    IN  SubSeq([k \in 1..n |-> B(k - 1)], 1, n)

(***************************************************************************)
(* Division by witness:  x = q * m + r  /\  r < m                          *)
(***************************************************************************)
DivWitness(x, m, q, r) == Eq(x, Add(Mul(q, m), r)) /\ Lt(r, m)

=============================================================================
