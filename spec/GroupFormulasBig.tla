-------------------------- MODULE GroupFormulasBig --------------------------
(***************************************************************************)
(* The point formulas of internal/ge25519 (ge25519.go:94-292,              *)
(* cofactor_equal.go) over GF(2^255-19) in exact BigNat arithmetic: the    *)
(* operators of MCGroupLaw at the REAL field.  TraceNum evaluates them on  *)
(* the recorded coordinates (X, Y, Z, T) of the operands of every          *)
(* "formula" event - the exported Add / Double / CofactorMultiply /        *)
(* ProjectiveToExtended and, through `verif`-tagged exports, full_to_pniels,*)
(* nielsadd2, pnielsadd, the two mixed additions with both sign bits,      *)
(* double_partial and geSub - and compares the predicted coordinates with  *)
(* the coordinates the code returned (as residues).  That binds the R1     *)
(* model MCGroupLaw to the implementation.  A coordinate difference is a   *)
(* NOTE (another correct formula would give another representative of the *)
(* same point); that the result IS the right point is a hard check         *)
(* (C16).                                                                  *)
(* Points are tuples <<X, Y, Z, T>>, niels <<ysubx, xaddy, t2d>>, pniels   *)
(* <<ysubx, xaddy, z, t2d>> of residues.                                   *)
(***************************************************************************)
EXTENDS Edwards

GFTwo == FromInt(2)
GFP1p1ToFull(p) == << MulP(p[1], p[4]), MulP(p[2], p[3]), MulP(p[3], p[4]), MulP(p[1], p[2]) >>
GFFullToPniels(p) == << SubP(p[2], p[1]), AddP(p[2], p[1]), ReduceP(p[3]), MulP(p[4], D2) >>

GFAddP1p1(p, q) ==
    LET a == MulP(SubP(p[2], p[1]), SubP(q[2], q[1]))
        b == MulP(AddP(p[2], p[1]), AddP(q[2], q[1]))
        c == MulP(MulP(p[4], q[4]), D2)
        d == MulP(GFTwo, MulP(p[3], q[3]))
    IN  << SubP(b, a), AddP(b, a), AddP(d, c), SubP(d, c) >>
GFDoubleP1p1(p) ==
    LET a == SqrP(p[1])   b == SqrP(p[2])   c == MulP(GFTwo, SqrP(p[3]))
        ry == AddP(b, a)  rz == SubP(b, a)
    IN  << SubP(SqrP(AddP(p[1], p[2])), ry), ry, rz, SubP(c, rz) >>
\* nielsadd2_p1p1 (zq = One) / pnielsadd_p1p1 (zq = q.z): qa, qb, qt = ysubx, xaddy, t2d
GFMixedP1p1(p, qa, qb, qt, zq, sign) ==
    LET a  == MulP(SubP(p[2], p[1]), IF sign = 0 THEN qa ELSE qb)
        rx == MulP(AddP(p[2], p[1]), IF sign = 0 THEN qb ELSE qa)
        c  == MulP(p[4], qt)
        t2 == MulP(GFTwo, MulP(p[3], zq))
    IN  << SubP(rx, a), AddP(rx, a), IF sign = 0 THEN AddP(t2, c) ELSE SubP(t2, c), IF sign = 0 THEN SubP(t2, c) ELSE AddP(t2, c) >>
GFNielsAdd2(r, q) ==
    LET a == MulP(SubP(r[2], r[1]), q[1])
        e0 == MulP(AddP(r[2], r[1]), q[2])
        h == AddP(e0, a)   e == SubP(e0, a)
        c == MulP(r[4], q[3])
        f0 == MulP(GFTwo, r[3])
        g == AddP(f0, c)   f == SubP(f0, c)
    IN  << MulP(e, f), MulP(h, g), MulP(g, f), MulP(e, h) >>
GFPnielsAdd(p, q) ==
    LET a == MulP(SubP(p[2], p[1]), q[1])
        x0 == MulP(AddP(p[2], p[1]), q[2])
        y == AddP(x0, a)   x == SubP(x0, a)
        c == MulP(p[4], q[4])
        t0 == MulP(GFTwo, MulP(p[3], q[3]))
        z == AddP(t0, c)   t == SubP(t0, c)
        X3 == MulP(x, t)   Y3 == MulP(y, z)
    IN  << SubP(Y3, X3), AddP(X3, Y3), MulP(z, t), MulP(MulP(x, y), D2) >>
GFGeSub(p, q) ==
    LET rz0 == MulP(AddP(p[2], p[1]), q[1])   ry1 == MulP(SubP(p[2], p[1]), q[2])
        rt0 == MulP(q[4], p[4])
        t0  == MulP(GFTwo, MulP(p[3], q[3]))
    IN  << SubP(rz0, ry1), AddP(rz0, ry1), SubP(t0, rt0), AddP(t0, rt0) >>
GFDouble(p) == GFP1p1ToFull(GFDoubleP1p1(p))
GFCofactorMultiply(p) == GFDouble(GFDouble(GFDouble(p)))
GFProjectiveToExtended(p) == << MulP(p[1], p[3]), MulP(p[2], p[3]), SqrP(p[3]), MulP(p[1], p[2]) >>

\* a tuple as a point of Edwards.tla; a pniels value as the point it stands for (X : Y : Z) = (xaddy - ysubx : xaddy + ysubx : 2 z)
GFPt(p) == Pt(p[1], p[2], p[3], p[4])
GFPnielsPt(n) == LET x == SubP(n[2], n[1])  y == AddP(n[2], n[1])  z == MulP(GFTwo, n[3]) IN Pt(MulP(x, z), MulP(y, z), SqrP(z), MulP(x, y))
GFNielsPt(n) == LET x == SubP(n[2], n[1])  y == AddP(n[2], n[1]) IN Pt(MulP(x, GFTwo), MulP(y, GFTwo), FromInt(4), MulP(x, y))
=============================================================================
