INIT Init
NEXT Next
CONSTANTS Q = 37 Dd = 2 NB = 5 Variant = "a24"
INVARIANTS LadderIsEdwards Agreement LowOrderRejected
CHECK_DEADLOCK FALSE
