INIT Init
NEXT Next
CONSTANTS Q = 37 Dd = 2 ZSet = {1, 36} ND = 4 NBits = 8 W1 = 5 W2 = 7 Mode = "double" Variant = "stale"
INVARIANTS FormulasExact GroupExact BaseExact DoubleExact
CHECK_DEADLOCK FALSE
