------------------------------- MODULE MCDom2 -------------------------------
(***************************************************************************)
(* R1 for C07: the hashed transcript determines the variant, the context   *)
(* and the message.                                                        *)
(*   pure:        R || A || M                                              *)
(*   ctx / ph:    dom2(f, c) || R || A || M,                               *)
(*                dom2(f, c) = PREFIX || f || len(c) || c   (SignSpec!Dom2)*)
(* Part A (scaled, exhaustive): with |PREFIX| = |R| = |A| = 2 over the     *)
(* byte alphabet {0, 1, 2}, contexts of 0..2 bytes and messages of 0..4    *)
(* bytes, a PARSER recovers (variant, context, R, A, message) from the     *)
(* transcript of every tuple - a left inverse, hence the map is injective: *)
(* no two different variant / context / message combinations are ever      *)
(* hashed to the same string, contexts that differ only in length          *)
(* included.  The parser needs exactly one fact: R is never the prefix     *)
(* string.  Control: with R = PREFIX allowed the left inverse fails.       *)
(* Part B (real size): that fact holds for the real constant - the 32      *)
(* bytes "SigEd25519 no Ed25519 collisions" do not decode as a point under *)
(* the library's lenient rule, so no accepted signature has them as R.     *)
(* TLC checks the non-residue certificate w (w^2 v = 2 u, u # 0; 2 is a    *)
(* non-residue mod p) in exact arithmetic.                                 *)
(***************************************************************************)
EXTENDS Edwards, TLC

CONSTANT AllowPrefixR     \* FALSE; TRUE is the control

\* ---- part B ----
PrefixBytes == <<83, 105, 103, 69, 100, 50, 53, 53, 49, 57, 32, 110, 111, 32, 69, 100, 50, 53, 53, 49, 57, 32, 99, 111, 108, 108, 105, 115, 105, 111, 110, 115>>
PrefixWitness == <<134, 59, 8, 228, 218, 99, 166, 206, 31, 117, 52, 38, 212, 171, 245, 223, 49, 123, 121, 168, 183, 169, 241, 222, 138, 209, 242, 137, 19, 60, 141, 60>>
PrefixIsNoPoint == WitnessNonSquare(PrefixBytes, FromBytes(PrefixWitness))

\* ---- part aa ----
TAlpha == {0, 1, 2}
TPfx == <<2, 2>>
TStrs(n) == [1..n -> TAlpha]
TSeqs(lo, hi) == UNION {TStrs(n) : n \in lo..hi}
TCat(a, b) == a \o b
TSub(s, from, n) == SubSeq(s, from, from + n - 1)

\* variant: "pure" | "ctx" | "ph"
TTranscript(vv, cc, rr, aa, mm) ==
    IF vv = "pure" THEN TCat(rr, TCat(aa, mm))
    ELSE TCat(TPfx, TCat(<<IF vv = "ph" THEN 1 ELSE 0>>, TCat(<<Len(cc)>>, TCat(cc, TCat(rr, TCat(aa, mm))))))

TParse(t) ==
    IF Len(t) >= 4 /\ TSub(t, 1, 2) = TPfx /\ ~AllowPrefixR
    THEN LET n == t[4]
         IN  <<IF t[3] = 1 THEN "ph" ELSE "ctx", TSub(t, 5, n), TSub(t, 5 + n, 2), TSub(t, 7 + n, 2), TSub(t, 9 + n, Len(t) - 8 - n)>>
    ELSE IF Len(t) >= 4 /\ TSub(t, 1, 2) = TPfx /\ Len(t) >= 8 + t[4] /\ t[3] \in {0, 1} /\ t[4] <= 2
    THEN LET n == t[4]           \* control: cannot tell a pure transcript with rr = PREFIX from a dom2 one; guess dom2
         IN  <<IF t[3] = 1 THEN "ph" ELSE "ctx", TSub(t, 5, n), TSub(t, 5 + n, 2), TSub(t, 7 + n, 2), TSub(t, 9 + n, Len(t) - 8 - n)>>
    ELSE <<"pure", << >>, TSub(t, 1, 2), TSub(t, 3, 2), TSub(t, 5, Len(t) - 4)>>

VARIABLES vv, cc, rr, aa, mm, pc
Init == vv = "pure" /\ cc = << >> /\ rr = <<0, 0>> /\ aa = <<0, 0>> /\ mm = << >> /\ pc = "start"
Next == \/ pc = "start" /\ vv' \in {"pure", "ctx", "ph"} /\ pc' = "v" /\ UNCHANGED <<cc, rr, aa, mm>>
        \/ pc = "v" /\ cc' \in (IF vv = "pure" THEN {<< >>} ELSE IF vv = "ctx" THEN TSeqs(1, 2) ELSE TSeqs(0, 2)) /\ pc' = "c" /\ UNCHANGED <<vv, rr, aa, mm>>
        \/ pc = "c" /\ rr' \in {r \in TStrs(2) : AllowPrefixR \/ r # TPfx} /\ aa' \in TStrs(2) /\ pc' = "ra" /\ UNCHANGED <<vv, cc, mm>>
        \/ pc = "ra" /\ mm' \in TSeqs(0, 4) /\ pc' = "m" /\ UNCHANGED <<vv, cc, rr, aa>>

\* sequences are compared as functions: normalise the empty ones
TNorm(s) == IF Len(s) = 0 THEN << >> ELSE s
LeftInverse == pc = "m" =>
    LET p == TParse(TTranscript(vv, cc, rr, aa, mm))
    IN  p[1] = vv /\ TNorm(p[2]) = TNorm(cc) /\ p[3] = rr /\ p[4] = aa /\ TNorm(p[5]) = TNorm(mm)
ASSUME RealPrefixUndecodable == PrefixIsNoPoint
=============================================================================
