SPECIFICATION Spec
CONSTANTS
  KSet = {0, 1, 2, 5, 16}
  TSet = {0, 1, 2, 4, 7}
  SSet = {0, 1, 2, 5, 9, 15, 16, 17, 18, 19, 22, 31, 32, 33, 34, 39, 48, 63, 64, 65, 127, 128, 200, 255}
  HSet = {0, 1, 3, 7, 16}
  LenSet = {0, 32, 63, 64, 65}
  FastRejectMask = 224
INVARIANTS PipelineExact ScMinimalExact ZipWidens ZipDiffersOnlyOnSmall Unique HonestAccepted
CHECK_DEADLOCK FALSE
