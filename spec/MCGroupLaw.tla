------------------------------ MODULE MCGroupLaw ------------------------------
(***************************************************************************)
(* R1 for C16 (and the group layer under C01 / C06 / C17): the point        *)
(* formulas and the two scalar multiplication algorithms of                 *)
(* internal/ge25519 (ge25519.go:94-292, 382-470) transcribed over a SMALL   *)
(* prime field F_q and checked by TLC on EVERY point of a twisted Edwards   *)
(* curve  -x^2 + y^2 = 1 + d x^2 y^2  that has the shape of edwards25519:   *)
(* q = 5 mod 8, d a non-square, a cyclic group of order 8 l with l an odd   *)
(* prime (q = 37, d = 2: 8 x 5;  q = 53, d = 3: 8 x 7;  q = 109, d = 11:    *)
(* 8 x 13).  The carry discipline of the field layer is the business of     *)
(* FieldLimbs / FieldLimbs32; here every field value is a residue.          *)
(*                                                                         *)
(* Formulas: add_p1p1, double_p1p1, nielsadd2_p1p1 and pnielsadd_p1p1 with  *)
(* both sign bits, p1p1_to_partial / full, full_to_pniels, nielsadd2,       *)
(* pnielsadd, and cofactor_equal.go (geSub, CofactorMultiply, IsNeutral,    *)
(* CofactorEqual).  Checked against the affine addition law for ALL pairs of *)
(* points - equal, opposite, neutral, of order 2, 4, 8, mixed order - and   *)
(* several projective scalings: the result represents P + Q (P - Q), its Z  *)
(* is non-zero (completeness), a full result satisfies T Z = X Y, and no    *)
(* formula reads the T of a partial point.                                  *)
(*                                                                         *)
(* Algorithms: ScalarmultBaseNiels (signed radix-16 digits from Recode,     *)
(* odd digits first, three partial doublings and a full one, even digits;   *)
(* table rows of 8 multiples of 256^i B, row 0 storing 2xy instead of 2dxy) *)
(* for EVERY scalar below 16^ND / 2, and DoubleScalarmultVartime (sliding   *)
(* windows 5 and 7 from Recode, the table of odd multiples of P built with  *)
(* pnielsadd from 2P, partial / full conversions exactly where the code has *)
(* them) for EVERY point P of the curve and every pair of scalars with the  *)
(* top three bits clear.  The base point of the model generates the whole   *)
(* group (order 8 l), so that a wrong multiple cannot hide in the torsion.  *)
(***************************************************************************)
EXTENDS Integers, Sequences, FiniteSets, Recode

CONSTANTS Q, Dd,            \* field and curve constant
          ZSet,             \* projective scalings tried for every operand
          ND,               \* radix-16 digits of ScalarmultBaseNiels (64 in the code)
          NBits,            \* bits of the sliding-window recodings (256 in the code)
          W1, W2,           \* window sizes (5 and 7)
          Mode,             \* "formulas" | "base" | "double"
          Variant           \* "code", or a deliberately wrong transcription used as a control:
                            \* "row0" (row 0 of the table storing 2dxy), "dbl3" (three doublings between odd and even digits),
                            \* "stale" (the addition of the base-point multiple without p1p1_to_full), "ec2d" (add_p1p1 with d for 2d)

F(v) == v % Q
InvT == SubSeq([z \in 1..(Q - 1) |-> CHOOSE w \in 1..(Q - 1) : (z * w) % Q = 1], 1, Q - 1)
Inv(z) == InvT[z]

\* ---- the curve and its affine group law (complete: d is a non-square, -1 a square) ----
OnCurve(x, y) == F(y * y - x * x) = F(1 + Dd * F(x * x) * F(y * y))
E == {p \in (0..(Q - 1)) \X (0..(Q - 1)) : OnCurve(p[1], p[2])}
ASSUME \A z \in 1..(Q - 1) : F(z * z) # Dd                        \* d is not a square
ASSUME \E z \in 1..(Q - 1) : F(z * z) = Q - 1                      \* -1 is a square
ASSUME Q % 8 = 5 /\ Cardinality(E) % 8 = 0

Neutral == <<0, 1>>
AAdd(P, R) ==
    LET t == F(Dd * F(P[1] * R[1]) * F(P[2] * R[2]))
    IN  <<F(F(P[1] * R[2] + P[2] * R[1]) * Inv(F(1 + t))), F(F(P[2] * R[2] + P[1] * R[1]) * Inv(F(1 - t)))>>
ANeg(P) == <<F(0 - P[1]), P[2]>>
RECURSIVE AMul(_, _)
AMul(k, P) == IF k = 0 THEN Neutral ELSE AAdd(P, AMul(k - 1, P))
RECURSIVE OrderFrom(_, _, _)
OrderFrom(P, R, k) == IF R = Neutral THEN k ELSE OrderFrom(P, AAdd(R, P), k + 1)
Order(P) == OrderFrom(P, P, 1)
\* the base point: a generator of the whole (cyclic) group
Bp == CHOOSE P \in E : Order(P) = Cardinality(E)
\* [k]B for every k below the group order, as a table
NPts == Cardinality(E)
RECURSIVE MulTab(_, _, _)
MulTab(k, R, acc) == IF k = NPts THEN acc ELSE MulTab(k + 1, AAdd(R, Bp), Append(acc, R))
BMulT == MulTab(0, Neutral, << >>)             \* BMulT[k + 1] = [k]B
BMul(k) == BMulT[(k % NPts) + 1]

\* ---- representations: extended <<X, Y, Z, T, full>>, p1p1 <<x, y, z, t>>, niels <<ysubx, xaddy, t2d>>, pniels <<ysubx, xaddy, z, t2d>>
Ext(P, z) == <<F(P[1] * z), F(P[2] * z), z, F(F(P[1] * P[2]) * z), TRUE>>
Aff(R) == <<F(R[1] * Inv(R[3])), F(R[2] * Inv(R[3]))>>
Niels(P) == <<F(P[2] - P[1]), F(P[2] + P[1]), F(2 * Dd * F(P[1] * P[2]))>>
Ec2d == F(2 * Dd)

P1p1ToPartial(p) == <<F(p[1] * p[4]), F(p[2] * p[3]), F(p[3] * p[4]), 0, FALSE>>
P1p1ToFull(p)    == <<F(p[1] * p[4]), F(p[2] * p[3]), F(p[3] * p[4]), F(p[1] * p[2]), TRUE>>
FullToPniels(p)  == <<F(p[2] - p[1]), F(p[2] + p[1]), p[3], F(p[4] * Ec2d)>>

AddP1p1(p, q) ==
    LET a == F(F(p[2] - p[1]) * F(q[2] - q[1]))
        b == F(F(p[2] + p[1]) * F(q[2] + q[1]))
        c == F(F(p[4] * q[4]) * (IF Variant = "ec2d" THEN Dd ELSE Ec2d))
        d == F(2 * F(p[3] * q[3]))
    IN  <<F(b - a), F(b + a), F(d + c), F(d - c)>>
DoubleP1p1(p) ==
    LET a == F(p[1] * p[1])   b == F(p[2] * p[2])   c == F(2 * F(p[3] * p[3]))
        rx == F((p[1] + p[2]) * (p[1] + p[2]))   ry == F(b + a)   rz == F(b - a)
    IN  <<F(rx - ry), ry, rz, F(c - rz)>>
NielsAdd2P1p1(p, q, sign) ==
    LET a  == F(F(p[2] - p[1]) * (IF sign = 0 THEN q[1] ELSE q[2]))
        rx == F(F(p[2] + p[1]) * (IF sign = 0 THEN q[2] ELSE q[1]))
        c  == F(p[4] * q[3])
        t2 == F(2 * p[3])
    IN  <<F(rx - a), F(rx + a), IF sign = 0 THEN F(t2 + c) ELSE F(t2 - c), IF sign = 0 THEN F(t2 - c) ELSE F(t2 + c)>>
PnielsAddP1p1(p, q, sign) ==
    LET a  == F(F(p[2] - p[1]) * (IF sign = 0 THEN q[1] ELSE q[2]))
        rx == F(F(p[2] + p[1]) * (IF sign = 0 THEN q[2] ELSE q[1]))
        c  == F(p[4] * q[4])
        t2 == F(2 * F(p[3] * q[3]))
    IN  <<F(rx - a), F(rx + a), IF sign = 0 THEN F(t2 + c) ELSE F(t2 - c), IF sign = 0 THEN F(t2 - c) ELSE F(t2 + c)>>
NielsAdd2(r, q) ==
    LET a == F(F(r[2] - r[1]) * q[1])
        e0 == F(F(r[2] + r[1]) * q[2])
        h == F(e0 + a)   e == F(e0 - a)
        c == F(r[4] * q[3])
        f0 == F(2 * r[3])
        g == F(f0 + c)   f == F(f0 - c)
    IN  <<F(e * f), F(h * g), F(g * f), F(e * h), TRUE>>
PnielsAdd(p, q) ==
    LET a == F(F(p[2] - p[1]) * q[1])
        x0 == F(F(p[2] + p[1]) * q[2])
        y == F(x0 + a)   x == F(x0 - a)
        c == F(p[4] * q[4])
        t0 == F(2 * F(p[3] * q[3]))
        z == F(t0 + c)   t == F(t0 - c)
        X3 == F(x * t)   Y3 == F(y * z)
    IN  <<F(Y3 - X3), F(X3 + Y3), F(z * t), F(F(x * y) * Ec2d)>>
Double(p)        == P1p1ToFull(DoubleP1p1(p))
DoublePartial(p) == P1p1ToPartial(DoubleP1p1(p))
Add(p, q)        == P1p1ToFull(AddP1p1(p, q))

\* cofactor_equal.go: geSub (P - Q through a pniels operand), CofactorMultiply, IsNeutralVartime, CofactorEqual, ProjectiveToExtended
GeSub(p, q) ==
    LET rx0 == F(p[2] + p[1])   ry0 == F(p[2] - p[1])
        rz0 == F(rx0 * q[1])    ry1 == F(ry0 * q[2])
        rt0 == F(q[4] * p[4])
        t0  == F(2 * F(p[3] * q[3]))
    IN  <<F(rz0 - ry1), F(rz0 + ry1), F(t0 - rt0), F(t0 + rt0)>>
CofactorMultiply(p) == P1p1ToFull(DoubleP1p1(P1p1ToFull(DoubleP1p1(P1p1ToFull(DoubleP1p1(p))))))
IsNeutralV(r) == r[1] = 0 /\ r[2] = r[3]
CofactorEqual(p, q) == IsNeutralV(CofactorMultiply(P1p1ToFull(GeSub(p, FullToPniels(q)))))
ProjectiveToExtended(p) == <<F(p[1] * p[3]), F(p[2] * p[3]), F(p[3] * p[3]), F(p[1] * p[2]), TRUE>>

\* what a pniels value stands for: X = (xaddy - ysubx) / 2, Y = (xaddy + ysubx) / 2, Z = z, T = t2d / 2d
PnielsAff(n) == LET i2 == Inv(2) IN <<F(F(F(n[2] - n[1]) * i2) * Inv(n[3])), F(F(F(n[2] + n[1]) * i2) * Inv(n[3]))>>
PnielsOk(n)  == n[3] # 0 /\ F(F(n[4] * Inv(Ec2d)) * n[3]) = F(F(F(n[2] - n[1]) * Inv(2)) * F(F(n[2] + n[1]) * Inv(2)))

FullOk(r, want) == r[3] # 0 /\ Aff(r) = want /\ F(r[4] * r[3]) = F(r[1] * r[2])
PartOk(r, want) == r[3] # 0 /\ Aff(r) = want

\* ---- ScalarmultBaseNiels ----
\* the table: row i (0-based), entry j (1..8) = niels of [j 256^i]B; row 0 stores 2xy in the place of 2dxy
RowPoint(i, j) == BMul(j * (256 ^ i))
TabEntry(i, j) == LET P == RowPoint(i, j) IN IF i = 0 /\ Variant # "row0" THEN <<F(P[2] - P[1]), F(P[2] + P[1]), F(2 * F(P[1] * P[2]))>> ELSE Niels(P)
\* scalarmultBaseChooseNiels: entry |b| of row pos (the neutral element for 0), negated for b < 0
Choose(pos, b) ==
    LET ab == IF b < 0 THEN 0 - b ELSE b
        t  == IF ab = 0 THEN <<1, 1, 0>> ELSE TabEntry(pos, ab)
    IN  IF b < 0 THEN <<t[2], t[1], F(0 - t[3])>> ELSE t
RECURSIVE AddDigits(_, _, _)
AddDigits(r, b, i) == IF i >= ND THEN r ELSE AddDigits(NielsAdd2(r, Choose(i \div 2, b[i + 1])), b, i + 2)
BaseNiels(s) ==
    LET b  == Window4(s, ND)
        t  == Choose(0, b[2])                                                   \* b[1] of the code (0-based)
        r0 == <<F(t[2] - t[1]), F(t[2] + t[1]), 2, t[3], TRUE>>                   \* x = xaddy - ysubx, y = xaddy + ysubx, z = 2, t = t2d (row 0: 2xy)
        r1 == AddDigits(r0, b, 3)
        r2 == IF Variant = "dbl3" THEN Double(DoublePartial(DoublePartial(r1))) ELSE Double(DoublePartial(DoublePartial(DoublePartial(r1))))
        t0 == Choose(0, b[1])
        r3 == NielsAdd2(r2, <<t0[1], t0[2], F(t0[3] * Dd)>>)                      \* t2d * ecd
    IN  AddDigits(r3, b, 2)

\* ---- DoubleScalarmultVartime ----
T1Size == 2 ^ (W1 - 2)
RECURSIVE Pre1(_, _, _)
Pre1(d1, acc, i) == IF i >= T1Size - 1 THEN acc ELSE Pre1(d1, Append(acc, PnielsAdd(d1, acc[i + 1])), i + 1)
NSM(k) == Niels(BMul(2 * k + 1))                                                 \* nielsSlidingMultiples[k]
Abs(n) == IF n < 0 THEN 0 - n ELSE n
Sgn(n) == IF n < 0 THEN 1 ELSE 0
RECURSIVE TopIdx(_, _, _)
TopIdx(s1, s2, i) == IF i < 1 THEN 0 ELSE IF s1[i] # 0 \/ s2[i] # 0 THEN i ELSE TopIdx(s1, s2, i - 1)
\* usesT: the additions read r.t; r must be a full point there
RECURSIVE DSLoop(_, _, _, _, _, _)
DSLoop(r, pre1, s1, s2, i, ok) ==
    IF i < 1 THEN <<r, ok>>
    ELSE LET t0 == DoubleP1p1(r)
             r1 == IF s1[i] # 0 THEN P1p1ToFull(t0) ELSE r
             t1 == IF s1[i] # 0 THEN PnielsAddP1p1(r1, pre1[(Abs(s1[i]) \div 2) + 1], Sgn(s1[i])) ELSE t0
             r2 == IF s2[i] # 0 THEN (IF Variant = "stale" THEN [P1p1ToPartial(t1) EXCEPT ![4] = r1[4]] ELSE P1p1ToFull(t1)) ELSE r1
             t2 == IF s2[i] # 0 THEN NielsAdd2P1p1(r2, NSM(Abs(s2[i]) \div 2), Sgn(s2[i])) ELSE t1
         IN  DSLoop(P1p1ToPartial(t2), pre1, s1, s2, i - 1,
                    ok /\ (s1[i] # 0 => r1[5]) /\ (s2[i] # 0 => r2[5])
                       /\ (s1[i] # 0 => Abs(s1[i]) \div 2 < T1Size) /\ (s2[i] # 0 => Abs(s2[i]) \div 2 < 2 ^ (W2 - 2)))
DoubleScalar(p1, v1, v2) ==
    LET s1 == Sliding(v1, NBits, W1)
        s2 == Sliding(v2, NBits, W2)
        pre1 == Pre1(Double(p1), <<FullToPniels(p1)>>, 0)
    IN  DSLoop(<<0, 1, 1, 0, FALSE>>, pre1, s1, s2, TopIdx(s1, s2, NBits), TRUE)

\* ---- exploration ----
VARIABLES pa, pb, za, zb, ka, kb, pc
vars == <<pa, pb, za, zb, ka, kb, pc>>
Init == pa = Neutral /\ pb = Neutral /\ za = 1 /\ zb = 1 /\ ka = 0 /\ kb = 0 /\ pc = "start"
NextFormulas ==
    \/ pc = "start" /\ pa' \in E /\ za' \in ZSet /\ pc' = "a" /\ UNCHANGED <<pb, zb, ka, kb>>
    \/ pc = "a" /\ pb' \in E /\ zb' \in ZSet /\ pc' = "ab" /\ UNCHANGED <<pa, za, ka, kb>>
NextBase ==
    \/ pc = "start" /\ ka' \in 0..(((16 ^ (ND \div 2))) - 1) /\ pc' = "a" /\ UNCHANGED <<pa, pb, za, zb, kb>>
    \/ pc = "a" /\ kb' \in 0..(((16 ^ (ND \div 2)) \div 2) - 1) /\ pc' = "k" /\ UNCHANGED <<pa, pb, za, zb, ka>>
NextDouble ==
    \/ pc = "start" /\ pa' \in E /\ za' \in ZSet /\ pc' = "a" /\ UNCHANGED <<pb, zb, ka, kb>>
    \/ pc = "a" /\ ka' \in 0..((2 ^ (NBits - 3)) - 1) /\ pc' = "b" /\ UNCHANGED <<pa, pb, za, zb, kb>>
    \/ pc = "b" /\ kb' \in 0..((2 ^ (NBits - 3)) - 1) /\ pc' = "kk" /\ UNCHANGED <<pa, pb, za, zb, ka>>
Next == IF Mode = "formulas" THEN NextFormulas ELSE IF Mode = "base" THEN NextBase ELSE NextDouble

\* all formulas on the pair (pa, pb) in the scalings (za, zb)
FormulasExact == pc = "ab" =>
    LET p == Ext(pa, za)   q == Ext(pb, zb)
        sum == AAdd(pa, pb)   dif == AAdd(pa, ANeg(pb))
        nq == Niels(pb)   pq == FullToPniels(q)
    IN  /\ FullOk(Add(p, q), sum)
        /\ PartOk(P1p1ToPartial(AddP1p1(p, q)), sum)
        /\ FullOk(Double(p), AAdd(pa, pa)) /\ PartOk(DoublePartial(p), AAdd(pa, pa))
        /\ DoublePartial(<<p[1], p[2], p[3], 0, FALSE>>) = DoublePartial(p)          \* doubling does not read T
        /\ FullOk(P1p1ToFull(NielsAdd2P1p1(p, nq, 0)), sum) /\ FullOk(P1p1ToFull(NielsAdd2P1p1(p, nq, 1)), dif)
        /\ FullOk(P1p1ToFull(PnielsAddP1p1(p, pq, 0)), sum) /\ FullOk(P1p1ToFull(PnielsAddP1p1(p, pq, 1)), dif)
        /\ FullOk(NielsAdd2(p, nq), sum)
        /\ PnielsOk(pq) /\ PnielsAff(pq) = pb
        /\ FullOk(P1p1ToFull(GeSub(p, pq)), dif)
        /\ FullOk(CofactorMultiply(p), AMul(8, pa))
        /\ IsNeutralV(CofactorMultiply(p)) = (AMul(8, pa) = Neutral)                  \* isSmallOrderVartime
        /\ (CofactorMultiply(p)[1] = 0 \/ CofactorMultiply(p)[2] = CofactorMultiply(p)[3]) = IsNeutralV(CofactorMultiply(p))   \* after [8] the point (0,-1) cannot occur
        /\ CofactorEqual(p, q) = (AMul(8, dif) = Neutral)                             \* equal up to torsion, in any scaling
        /\ FullOk(ProjectiveToExtended(<<p[1], p[2], p[3], 0, FALSE>>), pa)
        /\ PnielsOk(PnielsAdd(p, pq)) /\ PnielsAff(PnielsAdd(p, pq)) = sum
\* the group itself: closed, the law agrees with repeated addition of the generator (associativity on the whole group)
GroupExact == pc = "ab" => AAdd(pa, pb) \in E /\ OnCurve(AAdd(pa, pb)[1], AAdd(pa, pb)[2])

BaseExact == pc = "k" =>
    LET s == kb * (16 ^ (ND \div 2)) + ka IN PartOk(BaseNiels(s), BMul(s)) /\ BaseNiels(s)[5]
DoubleExact == pc = "kk" =>
    LET r == DoubleScalar(Ext(pa, za), ka, kb)
    IN  r[2] /\ PartOk(r[1], AAdd(AMul(ka, pa), BMul(kb)))
=============================================================================
