--------------------------------- MODULE Conc ---------------------------------
(***************************************************************************)
(* C15 at the design level: clients call library operations concurrently.  *)
(* Every operation keeps its working state in call-local variables; the    *)
(* package-level variables (test switches, unalignedOk, the base-point     *)
(* slice, the tables, and under the verif tag the hook variables) are only *)
(* read.  VerifyBatch is split into one step per 64-entry chunk: between   *)
(* two chunks of one call any other client may run.                        *)
(*                                                                         *)
(* The design switch SharedScratch models the hazard the property guards   *)
(* against (a scratch heap reused across calls): with FALSE - the code as  *)
(* it is - TLC proves both invariants for every interleaving; with TRUE    *)
(* it produces a counterexample schedule (used as a control, and as the    *)
(* family of schedules replayed against the real code).                    *)
(***************************************************************************)
EXTENDS Integers, Sequences, FiniteSets

CONSTANTS Clients, NChunks, SharedScratch

\* abstract data: what chunk k of client c's batch contributes
Data(c, k) == <<c, k>>
Solo(c) == [k \in 1..NChunks |-> Data(c, k)]        \* the result of the call executed alone

VARIABLES pc, step, local, shared, result, globals
vars == <<pc, step, local, shared, result, globals>>

Globals0 == [testBatchSaveY |-> FALSE, basepointOk |-> TRUE, tablesOk |-> TRUE]

Init == /\ pc = [c \in Clients |-> "idle"]
        /\ step = [c \in Clients |-> 0]
        /\ local = [c \in Clients |-> << >>]
        /\ shared = << >>
        /\ result = [c \in Clients |-> << >>]
        /\ globals = Globals0

Begin(c) == /\ pc[c] = "idle"
            /\ pc' = [pc EXCEPT ![c] = "running"]
            /\ step' = [step EXCEPT ![c] = 1]
            /\ local' = [local EXCEPT ![c] = << >>]
            /\ shared' = IF SharedScratch THEN << >> ELSE shared     \* "reset" of a shared heap by the new call
            /\ UNCHANGED <<result, globals>>

\* one chunk: write the scratch, compute the chunk's contribution from it, append to the per-call vector
Chunk(c) == /\ pc[c] = "running" /\ step[c] <= NChunks
            /\ LET scratchBefore == IF SharedScratch THEN shared ELSE local[c]
                   scratchAfter  == Append(scratchBefore, Data(c, step[c]))
               IN  /\ IF SharedScratch THEN shared' = scratchAfter /\ local' = local
                                       ELSE local' = [local EXCEPT ![c] = scratchAfter] /\ shared' = shared
                   \* the contribution is read back from the scratch (last element written)
                   /\ result' = [result EXCEPT ![c] = scratchAfter]
            /\ step' = [step EXCEPT ![c] = @ + 1]
            /\ pc' = [pc EXCEPT ![c] = IF step[c] = NChunks THEN "done" ELSE "running"]
            /\ UNCHANGED globals

Next == \E c \in Clients : Begin(c) \/ Chunk(c)
Spec == Init /\ [][Next]_vars

\* no package-level variable is written after initialisation
GlobalsUnchanged == globals = Globals0
\* every call returns what it would return alone, whatever the interleaving
ResultsSolo == \A c \in Clients : pc[c] = "done" => result[c] = Solo(c)
=============================================================================
