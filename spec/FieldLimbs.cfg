INIT Init
NEXT Next
CONSTANTS NL = 3 W = 3 C = 3 WS = 7 Slack = 2
INVARIANTS AddSubExact AfterBasicExact ReduceExact MulExact ContractCanonical
CHECK_DEADLOCK FALSE
