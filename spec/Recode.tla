------------------------------- MODULE Recode -------------------------------
(***************************************************************************)
(* The scalar recodings of internal/modm (C19, C16):                       *)
(*   ContractWindow4        signed radix-16 digits of a 256-bit integer    *)
(*   ContractSlidingWindow  sliding-window digits (odd, |d| <= 2^(w-1)-1)  *)
(* transcribed from modm_64bit.go:519-597 (the 32-bit file is the same     *)
(* algorithm on other limbs) with the number of digits / bits as           *)
(* parameters, so that TLC checks them exhaustively at a scaled size and   *)
(* the trace spec evaluates the radix-16 one at the real size.             *)
(* Values are TLC integers here; digit sequences are 1-based.              *)
(***************************************************************************)
EXTENDS Integers, Sequences

\* ---- signed radix 16 -------------------------------------------------------
\* nibbles: the ND low radix-16 digits of v, least significant first
Nibbles(v, ND) == [i \in 1..ND |-> (v \div (16 ^ (i - 1))) % 16]

\* the "making it signed" loop: for i < ND-1: r[i] += carry; r[i+1] += r[i] >> 4; r[i] &= 15;
\* carry = r[i] >> 3; r[i] -= carry << 4;  finally r[ND-1] += carry
RECURSIVE SignedLoop(_, _, _, _)
SignedLoop(r, i, carry, ND) ==
    IF i = ND THEN [r EXCEPT ![ND] = @ + carry]
    ELSE LET a  == r[i] + carry
             r1 == [r EXCEPT ![i + 1] = @ + (a \div 16)]
             lo == a % 16
             c  == lo \div 8
         IN  SignedLoop([r1 EXCEPT ![i] = lo - 16 * c], i + 1, c, ND)

Window4(v, ND) == SignedLoop(Nibbles(v, ND), 1, 0, ND)

RECURSIVE DigitSum(_, _, _)
DigitSum(r, i, radix) == IF i > Len(r) THEN 0 ELSE r[i] + radix * DigitSum(r, i + 1, radix)

Window4Ok(r, v) == /\ DigitSum(r, 1, 16) = v
                   /\ \A i \in 1..(Len(r) - 1) : r[i] >= -8 /\ r[i] <= 7
                   /\ r[Len(r)] >= 0 /\ r[Len(r)] <= 8

\* ---- sliding window --------------------------------------------------------
Bits(v, n) == [i \in 1..n |-> (v \div (2 ^ (i - 1))) % 2]

\* carry propagation: for k >= from: if r[k] = 0 then r[k] = 1, stop else r[k] = 0
RECURSIVE Carry(_, _, _)
Carry(r, k, n) == IF k > n THEN r ELSE IF r[k] = 0 THEN [r EXCEPT ![k] = 1] ELSE Carry([r EXCEPT ![k] = 0], k + 1, n)

\* inner loop over b = 1..6 at position j (1-based positions; the code is 0-based)
RECURSIVE Inner(_, _, _, _, _)
Inner(r, j, b, m, n) ==
    IF ~(b < (n - (j - 1)) /\ b <= 6) THEN r
    ELSE LET sh == r[j + b] * (2 ^ b)
         IN  IF r[j] + sh <= m THEN Inner([r EXCEPT ![j] = @ + sh, ![j + b] = 0], j, b + 1, m, n)
             ELSE IF r[j] - sh >= -m THEN Inner(Carry([r EXCEPT ![j] = @ - sh], j + b, n), j, b + 1, m, n)
             ELSE IF r[j + b] # 0 THEN r
             ELSE Inner(r, j, b + 1, m, n)

RECURSIVE Outer(_, _, _, _)
Outer(r, j, m, n) == IF j > n THEN r ELSE IF r[j] = 0 THEN Outer(r, j + 1, m, n) ELSE Outer(Inner(r, j, 1, m, n), j + 1, m, n)

Sliding(v, n, w) == Outer(Bits(v, n), 1, (2 ^ (w - 1)) - 1, n)

SlidingOk(r, v, w) == /\ DigitSum(r, 1, 2) = v
                      /\ \A i \in 1..Len(r) : r[i] = 0 \/ (r[i] % 2 = 1 /\ r[i] <= (2 ^ (w - 1)) - 1 /\ r[i] >= -((2 ^ (w - 1)) - 1))
=============================================================================
