SPECIFICATION Spec
CONSTANTS
  BigSet5 = {0, 1, 2, 3, 7, 8, 9, 15, 16, 63, 64, 100, 129, 200, 255}
  SmallSet5 = {0, 1, 2, 3, 4, 5, 6, 7}
  BigSet7 = {0, 1, 5, 8, 77, 255}
  SmallSet7 = {0, 1, 6, 7}
INVARIANTS SumPreserved TruncExact HeapOrdered HeapIsPermutation ResultExact
CHECK_DEADLOCK FALSE
