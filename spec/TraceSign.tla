------------------------------ MODULE TraceSign ------------------------------
(***************************************************************************)
(* Trace validation for key derivation / signing (C02, C03) and the option *)
(* table (C07, C13).  A "sign" event carries the seed, the library's       *)
(* public key and signatures (every entry point, twice), the harness' own  *)
(* SHA-512 values of the RFC 8032 hash inputs and the projection of the    *)
(* two base-point multiples; the spec recomputes clamp, both reductions,   *)
(* S, the dom2 bytes, and requires determinism and an untouched entropy    *)
(* source.  An "opts" event is one cell of the option/length matrix.       *)
(***************************************************************************)
EXTENDS SignSpec, Json, TLC, IOUtils

Tr == ndJsonDeserialize(IOEnv.VERIF_TRACE)
N  == Len(Tr)
NB == 16

VARIABLES pc, blk, idx, chk
tvars == <<pc, blk, idx, chk>>

\* conditions of a sign event, as a sequence of <<name, holds>>
SignChecks(e) ==
    LET a    == SecretScalar(e.hs)
        kA   == ModL(a)
        r    == NonceScalar(e.hr)
        S    == SigScalar(e.hr, e.hk, a)
        okLen == Len(e.sig) = 64
        sigS == IF okLen THEN SubSeq(e.sig, 33, 64) ELSE << >>
    IN  << <<"dom2 layout",            e.dom2 = Dom2(e.variant, e.ctx)>>,
           <<"a = clamp(H(seed)) mod L", Eq(FromBytes(e.kA), kA)>>,
           <<"public key = Enc([a]B)",  e.pubEncOk>>,
           <<"private key = seed || A", e.privSeedPart = e.seed>>,
           <<"r = H(dom2||prefix||M) mod L", Eq(FromBytes(e.kR), r)>>,
           <<"R = Enc([r]B)",           e.rEncOk>>,
           <<"S = (r + k a) mod L",     okLen /\ sigS = ToBytes(S, 32)>>,
           <<"S < L",                   okLen /\ Lt(FromBytes(sigS), L)>>,
           <<"a # 0, r # 0 (no small order A, R)", ~IsZero(kA) /\ ~IsZero(r)>>,
           <<"all entry points, repeated calls: identical bytes, no error",
                \A k \in 1..Len(e.results) : e.results[k].err = "" /\ e.results[k].sig = e.sig>>,
           <<"entropy argument never read", e.randReads = 0>>,
           <<"matches crypto/ed25519 (public key)", e.stdPub = e.pub>>,
           <<"matches crypto/ed25519 (signature)",  e.stdSig = e.sig>>,
           <<"GenerateKey(seed stream) = NewKeyFromSeed(seed)", e.genOk>> >>

OptsExpected(e) ==
    LET o   == Outcome(e.style, e.hash, e.ctxlen, e.msglen)
        isV == o \in {"pure", "ctx", "ph"}
    IN  IF isV THEN <<"ok", o>>
        ELSE IF e.api = "Sign" THEN <<"error:" \o o, "">>
        ELSE IF e.api = "VerifyWithOptions" THEN <<"panic:" \o o, "">>
        ELSE IF o = "errCtx" THEN <<"error:errCtx", "">> ELSE <<"allfalse", "">>

\* The checks of an event are evaluated into the state variable chk (so that TLC computes them
\* exactly once) and reported by a second step.
Eval(i) ==
    LET e == Tr[i]
    IN  IF e.op = "sign" THEN SignChecks(e)
        ELSE IF e.op = "opts" THEN <<OptsExpected(e), <<e.surface, e.variants>> >>
        ELSE <<"unknown op">>

Report ==
    /\ pc = "eval"
    /\ LET e == Tr[idx]
       IN  IF e.op = "sign"
           THEN LET bad == {k \in 1..Len(chk) : ~chk[k][2]}
                IN  PrintT(<<"EV", idx, e.id, IF bad = {} THEN "ok" ELSE "MISMATCH", {chk[k][1] : k \in bad}>>)
           ELSE IF e.op = "opts"
           THEN PrintT(<<"EV", idx, e.id, IF chk[1] = chk[2] THEN "ok" ELSE "MISMATCH", chk[1], chk[2]>>)
           ELSE PrintT(<<"EV", idx, e.id, "MISMATCH", "unknown op", e.op>>)
    /\ pc' = "checked" /\ UNCHANGED <<blk, idx, chk>>

TInit == pc = "root" /\ blk = 0 /\ idx = 0 /\ chk = << >>
ToBlock == pc = "root" /\ \E b \in 1..NB : b <= N /\ blk' = b /\ pc' = "block" /\ idx' = 0 /\ chk' = chk
ToEvent == /\ pc = "block"
           /\ \E i \in 1..N : ((i - 1) % NB) + 1 = blk /\ Tr[i].op # "note" /\ idx' = i /\ chk' = Eval(i)
           /\ pc' = "eval" /\ UNCHANGED blk
TNext == ToBlock \/ ToEvent \/ Report
TSpec == TInit /\ [][TNext]_tvars
=============================================================================
