------------------------------- MODULE TraceNum -------------------------------
(***************************************************************************)
(* Trace validation for the numeric layers:                                *)
(*   C18  field arithmetic mod 2^255-19 on both limb layouts               *)
(*   C19  scalar arithmetic mod L and the recodings on both limb layouts   *)
(*   C16  table selection, fixed-base and double-base scalar multiplication*)
(* Limb vectors are logged limb by limb (8 little-endian bytes each); the  *)
(* spec computes the represented integer from the layout and checks the    *)
(* exact residue identity of every operation in BigNat arithmetic.         *)
(***************************************************************************)
EXTENDS Edwards, ZL, Recode, FieldLimbsBig, GroupFormulasBig, ModmLimbsBig, Json, TLC, IOUtils

Tr == ndJsonDeserialize(IOEnv.VERIF_TRACE)
N  == Len(Tr)
NB == 16

VARIABLES pc, blk, idx, chk
tvars == <<pc, blk, idx, chk>>

\* bit offset of limb i (1-based) in each layout
Offset(layout, i) ==
    CASE layout = "f51"   -> 51 * (i - 1)
      [] layout = "f2526" -> <<0, 26, 51, 77, 102, 128, 153, 179, 204, 230>>[i]
      [] layout = "m56"   -> 56 * (i - 1)
      [] layout = "m30"   -> 30 * (i - 1)
LimbBits(layout, i) ==
    CASE layout = "f51"   -> 51
      [] layout = "f2526" -> IF i % 2 = 1 THEN 26 ELSE 25
      [] layout = "m56"   -> 56
      [] layout = "m30"   -> 30

RECURSIVE ValRec(_, _, _, _)
ValRec(layout, limbs, i, acc) ==
    IF i > Len(limbs) THEN acc ELSE ValRec(layout, limbs, i + 1, Add(acc, ShiftLeft(FromBytes(limbs[i]), Offset(layout, i))))
Val(layout, limbs) == ValRec(layout, limbs, 1, Zero)

\* every limb below 2^(its width + slack)
LimbsBelow(layout, limbs, slack) == \A i \in 1..Len(limbs) : BitLen(FromBytes(limbs[i])) <= LimbBits(layout, i) + slack

RECURSIVE PowSq(_, _)
PowSq(a, n) == IF n = 0 THEN ReduceP(a) ELSE PowSq(SqrP(a), n - 1)

\* ---------------------------------------------------------------- field (C18)
FieldChecks0(e) ==
    LET ly == e.layout
        a  == Val(ly, e.a)
        b  == IF e.b = << >> THEN Zero ELSE Val(ly, e.b)
        o  == IF e.out = << >> THEN Zero ELSE Val(ly, e.out)
        f  == e.f
        res(x) == <<"exact residue mod p", TRUE, EqP(o, x)>>
        reduced == <<"output limbs reduced (at most one bit above the limb width)", TRUE, LimbsBelow(ly, e.out, 1)>>
    IN  CASE f \in {"Add", "AddAfterBasic"}      -> << res(AddP(a, b)) >>
          [] f \in {"Sub", "SubAfterBasic"}      -> << res(SubP(a, b)) >>
          [] f = "AddReduce"                     -> << res(AddP(a, b)), reduced >>
          [] f = "SubReduce"                     -> << res(SubP(a, b)), reduced >>
          [] f = "Neg"                           -> << res(NegP(a)), reduced >>
          [] f = "Mul"                           -> << res(MulP(a, b)), reduced >>
          [] f = "Square"                        -> << res(SqrP(a)), reduced >>
          [] f = "SquareTimes"                   -> << res(PowSq(a, e.n)), reduced >>
          [] f = "Recip"                         -> << <<"out * a = 1 (0 -> 0)", TRUE, IF IsZero(ReduceP(a)) THEN IsZero(ReduceP(o)) ELSE IsInvP(a, o)>>, reduced >>
          [] f = "PowTwo252m3"                   -> << <<"out^8 a^5 = a, i.e. out = a^((p-5)/8) up to a 4th root of unity", TRUE,
                                                          EqP(MulP(PowSq(o, 3), MulP(PowSq(a, 2), a)), a)>>,
                                                       <<"out = a^(2^252-3) (projection)", e.expected, ToBytes(ReduceP(o), 32)>>, reduced >>
          [] f = "Expand"                        -> << <<"value = low 255 bits of the input (bit 255 ignored)", TRUE, Eq(o, LowBits(FromBytes(e.bytes), 255))>>,
                                                       <<"limbs within their width", TRUE, LimbsBelow(ly, e.out, 0)>> >>
          [] f = "Contract"                      -> << <<"canonical: the unique value below p", ToBytes(ReduceP(a), 32), e.bytes>> >>
          [] f = "SwapConditional"               -> << <<"swap or no-op, limb for limb", IF e.flag = 1 THEN <<e.b, e.a>> ELSE <<e.a, e.b>>, <<e.out, e.out2>> >> >>
          [] OTHER -> << <<"unknown field op", "", f>> >>

\* the limbs themselves, predicted by the limb-level transcription at the real sizes (a 4-tuple is a NOTE, not a verdict)
LimbNote(e) ==
    IF e.f \in FLKnown /\ e.out # << >>
    THEN << <<"limbs differ from the limb-level transcription (FieldLimbsBig)",
              FLPredict(e.layout, e.f, FLLimbs(e.a), IF e.b = << >> THEN << >> ELSE FLLimbs(e.b), IF "n" \in DOMAIN e THEN e.n ELSE 0),
              e.out, "note">> >>
    ELSE << >>
FieldChecks(e) == FieldChecks0(e) \o LimbNote(e)

\* ---------------------------------------------------------------- scalars (C19)
W(ly, ls) == LimbBits(ly, 1) * (ls + 1)

\* digits (TLC integers, possibly negative) -> <<positive part, negative part>> as BigNat
RECURSIVE DigitsVal(_, _, _, _, _)
DigitsVal(ds, i, bitsPer, pos, neg) ==
    IF i > Len(ds) THEN <<pos, neg>>
    ELSE IF ds[i] = 0 THEN DigitsVal(ds, i + 1, bitsPer, pos, neg)
    ELSE IF ds[i] > 0 THEN DigitsVal(ds, i + 1, bitsPer, Add(pos, ShiftLeft(FromInt(ds[i]), bitsPer * (i - 1))), neg)
    ELSE DigitsVal(ds, i + 1, bitsPer, pos, Add(neg, ShiftLeft(FromInt(-ds[i]), bitsPer * (i - 1))))
DigitsRepresent(ds, bitsPer, v) == LET pn == DigitsVal(ds, 1, bitsPer, Zero, Zero) IN Eq(pn[1], Add(pn[2], v))

NibblesOf(bs) == [i \in 1..64 |-> IF i % 2 = 1 THEN bs[(i + 1) \div 2] % 16 ELSE bs[i \div 2] \div 16]

ScalarChecks(e) ==
    LET ly == e.layout
        f  == e.f
        canon(v) == <<"limbs within their width", TRUE, LimbsBelow(ly, e.out, 0)>>
    IN  CASE f = "Expand" ->
               LET x == FromBytes(e.bytes)  o == Val(ly, e.out)
               IN  << <<"value = input mod L (input shorter than 32 bytes: unchanged)", TRUE,
                          IF Len(e.bytes) < 32 THEN Eq(o, x) ELSE Eq(o, ModL(x))>>,
                      <<"canonical: below L", TRUE, Len(e.bytes) < 32 \/ Lt(o, L)>>, canon(o) >>
          [] f = "ExpandRaw" -> << <<"value = the 256-bit input", TRUE, Eq(Val(ly, e.out), FromBytes(e.bytes))>>, canon(0) >>
          [] f = "Add" -> << <<"(x + y) mod L, canonical", TRUE, Eq(Val(ly, e.out), AddL(Val(ly, e.a), Val(ly, e.b)))>>, canon(0) >>
          [] f = "Mul" -> << <<"(x * y) mod L, canonical", TRUE, Eq(Val(ly, e.out), MulL(Val(ly, e.a), Val(ly, e.b)))>>, canon(0) >>
          [] f = "Contract" -> << <<"serialisation round-trips", ToBytes(Val(ly, e.a), 32), e.bytes>> >>
          [] f = "Barrett" ->
               << <<"limbs differ from the limb-level transcription of barrettReduce (ModmLimbsBig)", MLBytes(MLBarrett(ly, MLLimbs(e.a), MLLimbs(e.b))), e.out, "note">>,
                  <<"consistent operands (q1 = x >> 248, r1 = x mod 2^264): the result is x mod L, canonical", TRUE,
                       ~e.consistent \/ (Eq(Val(ly, e.out), ModL(Add(ShiftLeft(ShiftRight(Val(ly, e.a), 16), 264), Val(ly, e.b)))) /\ Lt(Val(ly, e.out), L))>> >>
          [] f = "Reduce" -> << <<"one conditional subtraction: r mod L for r < 2L", TRUE, Eq(Val(ly, e.out), ModL(Val(ly, e.a)))>>, canon(0) >>
          [] f = "ContractWindow4" ->
               << <<"digits represent the integer", TRUE, DigitsRepresent(e.digits, 4, Val(ly, e.a))>>,
                  <<"digits -8..7, top digit 0..8", TRUE, (\A i \in 1..63 : e.digits[i] >= -8 /\ e.digits[i] <= 7) /\ e.digits[64] >= 0 /\ e.digits[64] <= 8>>,
                  <<"digits = the specified recoding (Recode!SignedLoop)", SignedLoop(NibblesOf(ToBytes(Val(ly, e.a), 32)), 1, 0, 64), e.digits>> >>
          [] f = "ContractSlidingWindow" ->
               << <<"digits differ from the specified recoding (Recode!Outer on the bits of the scalar)",
                      Outer(SubSeq([i \in 1..256 |-> Bit(Val(ly, e.a), i - 1)], 1, 256), 1, (2 ^ (e.w - 1)) - 1, 256), e.digits, "note">>,
                  <<"digits represent the integer", TRUE, DigitsRepresent(e.digits, 1, Val(ly, e.a))>>,
                  <<"digits zero or odd with |d| <= 2^(w-1)-1", TRUE,
                       \A i \in 1..256 : e.digits[i] = 0 \/ (e.digits[i] % 2 = 1 /\ e.digits[i] <= (2 ^ (e.w - 1)) - 1 /\ e.digits[i] >= -((2 ^ (e.w - 1)) - 1))>> >>
          [] f = "LessThanVartime" ->
               << <<"a < b on limbs 0..limbSize", Lt(LowBits(Val(ly, e.a), W(ly, e.ls)), LowBits(Val(ly, e.b), W(ly, e.ls))), e.flag = 1>> >>
          [] f = "LessThanOrEqualVartime" ->
               << <<"a <= b on limbs 0..limbSize", Le(LowBits(Val(ly, e.a), W(ly, e.ls)), LowBits(Val(ly, e.b), W(ly, e.ls))), e.flag = 1>> >>
          [] f = "SubVartime" ->
               << <<"a - b on limbs 0..limbSize (a >= b)", TRUE,
                     Eq(LowBits(Val(ly, e.out), W(ly, e.ls)), Sub(LowBits(Val(ly, e.a), W(ly, e.ls)), LowBits(Val(ly, e.b), W(ly, e.ls))))>> >>
          [] f = "IsZeroVartime" -> << <<"a = 0", IsZero(Val(ly, e.a)), e.flag = 1>> >>
          [] f = "IsOneVartime" -> << <<"a = 1", Eq(Val(ly, e.a), One), e.flag = 1>> >>
          [] f = "IsAtMost128bitsVartime" -> << <<"a < 2^128", BitLen(Val(ly, e.a)) <= 128, e.flag = 1>> >>
          [] OTHER -> << <<"unknown scalar op", "", f>> >>

\* ---------------------------------------------------------------- group level (C16)
GroupChecks(e) ==
    CASE e.f = "choose" ->
           \* niels form of the signed table entry: (y - x, y + x, 2 d x y) of [b * 256^pos]B; b = 0: (1, 1, 0).
           \* Row 0 of the table stores 2 x y instead (ScalarmultBaseNiels seeds its accumulator X:Y:Z:T =
           \* 2x:2y:2:2xy from it and multiplies by d when it uses the row as a niels point).
           LET x == FromBytes(e.ex)  y == FromBytes(e.ey)
           IN  << <<"y - x", ToBytes(SubP(y, x), 32), e.ysubx>>,
                  <<"y + x", ToBytes(AddP(y, x), 32), e.xaddy>>,
                  <<"2 d x y (row 0: 2 x y)", ToBytes(IF e.pos = 0 THEN MulP(FromInt(2), MulP(x, y)) ELSE MulP(D2, MulP(x, y)), 32), e.t2d>>,
                  <<"(x, y) = [b 256^pos]B: scalar of the projection", TRUE,
                        Eq(FromBytes(e.k), ModL(IF e.b >= 0 THEN ShiftLeft(FromInt(e.b), 8 * e.pos)
                                                 ELSE Sub(MulSmall(L, 16), ShiftLeft(FromInt(-e.b), 8 * e.pos))))>> >>
      [] e.f = "slidingtable" ->
           \* nielsSlidingMultiples[i] = [2i + 1]B in niels form (used by DoubleScalarmultVartime for the B half)
           LET x == FromBytes(e.ex)  y == FromBytes(e.ey)
           IN  << <<"y - x", ToBytes(SubP(y, x), 32), e.ysubx>>,
                  <<"y + x", ToBytes(AddP(y, x), 32), e.xaddy>>,
                  <<"2 d x y", ToBytes(MulP(D2, MulP(x, y)), 32), e.t2d>>,
                  <<"(x, y) = [2i + 1]B: scalar of the projection", TRUE, Eq(FromBytes(e.k), FromInt(2 * e.i + 1))>> >>
      [] e.f = "basemul" ->
           << <<"result = Enc([s]B) (projection; audited)", e.expected, e.out>>,
              <<"projection scalar = s mod L", TRUE, Eq(FromBytes(e.k), ModL(FromBytes(e.scalar)))>> >>
      [] e.f = "doublebase" ->
           LET s1 == FromBytes(e.s1)  s2 == FromBytes(e.s2)
           IN  << <<"k = s1 kP + s2 (mod L)", TRUE, Eq(FromBytes(e.resk), AddL(MulL(s1, FromBytes(e.pk)), s2))>>,
                  <<"t = s1 tP (mod 8)", (ToInt(LowBits(s1, 3)) * e.pt) % 8, e.rest>>,
                  <<"real result = [k]B + [t]T8 (projection)", TRUE, e.matches>> >>
      [] OTHER -> << <<"unknown group op", "", e.f>> >>

\* ---------------------------------------------------------------- point formulas with their coordinates (C16)
FRes(xs) == SubSeq([k \in 1..Len(xs) |-> FromBytes(xs[k])], 1, Len(xs))
FBytes(v) == SubSeq([k \in 1..Len(v) |-> ToBytes(ReduceP(v[k]), 32)], 1, Len(v))
FormulaChecks(e) ==
    LET p == FRes(e.p)   q == FRes(e.q)   o == FRes(e.out)   f == e.f
        PP == GFPt(IF Len(p) = 3 THEN p \o <<Zero>> ELSE p)
        sgn(pt) == IF e.sign = 1 THEN PtNeg(pt) ELSE pt
        coords(pred) == <<"coordinates differ from the transcribed formula (GroupFormulasBig)", FBytes(pred), e.out, "note">>
        point(got, want) == <<"the result is the right point", TRUE, PtEq(got, want)>>
        ext(t) == <<"T Z = X Y", TRUE, EqP(MulP(t[4], t[3]), MulP(t[1], t[2]))>>
    IN  CASE f = "add"           -> << point(GFPt(o), PtAdd(PP, GFPt(q))), ext(o), coords(GFP1p1ToFull(GFAddP1p1(p, q))) >>
          [] f = "double"        -> << point(GFPt(o), PtDbl(PP)), ext(o), coords(GFDouble(p)) >>
          [] f = "doublepartial" -> << point(GFPt(o \o <<Zero>>), PtDbl(PP)), coords(SubSeq(GFDouble(p), 1, 3)) >>
          [] f = "cofmul"        -> << point(GFPt(o), Mul8(PP)), ext(o), coords(GFCofactorMultiply(p)) >>
          [] f = "proj2ext"      -> << point(GFPt(o), PP), ext(o), coords(GFProjectiveToExtended(p)) >>
          [] f = "fulltopniels"  -> << point(GFPnielsPt(o), PP), coords(GFFullToPniels(p)) >>
          [] f = "pnielsadd"     -> << point(GFPnielsPt(o), PtAdd(PP, GFPnielsPt(q))), coords(GFPnielsAdd(p, q)) >>
          [] f = "gesub"         -> << point(GFPt(o), PtAdd(PP, PtNeg(GFPnielsPt(q)))), ext(o), coords(GFP1p1ToFull(GFGeSub(p, q))) >>
          [] f = "mixedpniels"   -> << point(GFPt(o), PtAdd(PP, sgn(GFPnielsPt(q)))), ext(o), coords(GFP1p1ToFull(GFMixedP1p1(p, q[1], q[2], q[4], q[3], e.sign))) >>
          [] f = "mixedniels"    -> << point(GFPt(o), PtAdd(PP, sgn(GFNielsPt(q)))), ext(o), coords(GFP1p1ToFull(GFMixedP1p1(p, q[1], q[2], q[3], One, e.sign))) >>
          [] f = "nielsadd2"     -> << point(GFPt(o), PtAdd(PP, GFNielsPt(q))), ext(o), coords(GFNielsAdd2(p, q)) >>
          [] OTHER -> << <<"unknown formula", "", f>> >>

Eval(i) ==
    LET e == Tr[i]
    IN  CASE e.op = "field"  -> FieldChecks(e)
          [] e.op = "scalar" -> ScalarChecks(e)
          [] e.op = "group"  -> GroupChecks(e)
          [] e.op = "formula" -> FormulaChecks(e)
          [] OTHER -> << <<"unknown op", "", e.op>> >>

Report ==
    /\ pc = "eval"
    /\ LET bad   == {k \in 1..Len(chk) : Len(chk[k]) = 3 /\ chk[k][2] # chk[k][3]}
           notes == {k \in 1..Len(chk) : Len(chk[k]) = 4 /\ chk[k][2] # chk[k][3]}
       IN  /\ PrintT(<<"EV", idx, Tr[idx].id, IF bad = {} THEN "ok" ELSE "MISMATCH", {chk[k][1] : k \in bad}>>)
           /\ IF notes = {} THEN TRUE ELSE PrintT(<<"NOTE", idx, Tr[idx].id, {chk[k][1] : k \in notes}>>)
    /\ pc' = "checked" /\ UNCHANGED <<blk, idx, chk>>

TInit == pc = "root" /\ blk = 0 /\ idx = 0 /\ chk = << >>
ToBlock == pc = "root" /\ \E b \in 1..NB : b <= N /\ blk' = b /\ pc' = "block" /\ idx' = 0 /\ chk' = chk
ToEvent == /\ pc = "block"
           /\ \E i \in 1..N : ((i - 1) % NB) + 1 = blk /\ Tr[i].op # "note" /\ idx' = i /\ chk' = Eval(i)
           /\ pc' = "eval" /\ UNCHANGED blk
TNext == ToBlock \/ ToEvent \/ Report
TSpec == TInit /\ [][TNext]_tvars
=============================================================================
