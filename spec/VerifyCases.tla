----------------------------- MODULE VerifyCases -----------------------------
(***************************************************************************)
(* R2: the abstract case matrix for the verification family, enumerated by *)
(* TLC from the structure the properties quantify over and written as      *)
(* JSON for the Go harness, which instantiates every abstract case with    *)
(* seeded concrete keys, nonces, messages and contexts.                    *)
(*                                                                         *)
(*  point kinds   kt(t)  : [k]B + [t]T8, k # 0 random, t = 0..7 (mixed     *)
(*                         order for t # 0)                                *)
(*                so(i)  : the i-th of the 14 encodings of torsion points  *)
(*                undec  : y with (y^2-1)/(dy^2+1) a non-square            *)
(*                unk    : random decodable string (unknown dlog)          *)
(*                nc     : y + p for 2 <= y < 19, decodable (non-canonical,*)
(*                         not small order)                                *)
(*  S rules       exact  : S = kR + h kA mod L (the value the equation     *)
(*                         admits); plusL(j): exact + jL; flip(b): bit b   *)
(*                bnd(j) : the j-th boundary value, used with a small-order*)
(*                         key and R := [S]B + T so that the equation      *)
(*                         holds for an arbitrary S                        *)
(***************************************************************************)
EXTENDS Integers, Sequences, SequencesExt, FiniteSets, TLC, Json, IOUtils

Variants == {"pure", "ctx", "ph"}

PointKinds ==
    {[k |-> "kt", i |-> t] : t \in 0..7} \cup {[k |-> "so", i |-> j] : j \in 0..13}
      \cup {[k |-> "undec", i |-> 0], [k |-> "unk", i |-> 0], [k |-> "nc", i |-> 0]}

GeneralSRules == {[r |-> "exact", j |-> 0], [r |-> "plusL", j |-> 1], [r |-> "plusL", j |-> 2],
                  [r |-> "plusL", j |-> 15], [r |-> "flip", j |-> 0], [r |-> "flip", j |-> 252]}

\* 0, 1, 2^252-1, 2^252, 2^252+1, L-1, L, L+1, 2^253-1, 2^253, 2^255-1, 2^255, 2^256-1
Boundaries == 0..12

General == {[variant |-> v, A |-> a, R |-> r, S |-> s, siglen |-> 64] :
              v \in Variants, a \in PointKinds, r \in PointKinds, s \in GeneralSRules}

Boundary == {[variant |-> v, A |-> [k |-> "so", i |-> j], R |-> [k |-> "kt", i |-> t],
              S |-> [r |-> "bnd", j |-> b], siglen |-> 64] :
              v \in Variants, j \in 0..13, t \in 0..7, b \in Boundaries}

\* honest key, honest R, S forced onto a boundary value (expected to be rejected
\* unless the boundary happens to be the exact value)
BoundaryHonest == {[variant |-> v, A |-> [k |-> "kt", i |-> 0], R |-> [k |-> "kt", i |-> t],
              S |-> [r |-> "bnd", j |-> b], siglen |-> 64] :
              v \in Variants, t \in {0, 1, 4}, b \in Boundaries}

Lengths == {[variant |-> v, A |-> [k |-> "kt", i |-> 0], R |-> [k |-> "kt", i |-> 0],
             S |-> [r |-> "exact", j |-> 0], siglen |-> n] :
             v \in Variants, n \in {0, 1, 32, 63, 65, 96, 128}}

Cases == General \cup Boundary \cup BoundaryHonest \cup Lengths

Out == IOEnv.VERIF_CASES

ASSUME PrintT(<<"CASES", Cardinality(Cases)>>)
ASSUME ndJsonSerialize(Out, SetToSeq(Cases))
=============================================================================
