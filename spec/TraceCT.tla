------------------------------- MODULE TraceCT -------------------------------
(***************************************************************************)
(* C20 on the real code.  Each trace line is one execution of a secret-    *)
(* handling operation under valgrind-lackey: the complete instruction and  *)
(* load/store address trace between two markers, as (record count,         *)
(* sha-256).  Non-interference: the observation must be a FUNCTION of the  *)
(* public part (configuration, operation, public shape) - it must not      *)
(* depend on the secret.  The spec consumes the executions one by one and  *)
(* remembers the observation of every public class.                        *)
(***************************************************************************)
EXTENDS Integers, Sequences, TLC, Json, IOUtils

Tr == ndJsonDeserialize(IOEnv.VERIF_TRACE)
N  == Len(Tr)

VARIABLES l, obs, bad
Class(e) == <<e.cfg, e.op, e.shape>>
Ob(e) == <<e.records, e.sha>>

TInit == l = 1 /\ obs = << >> /\ bad = {}

\* Execute(e): first execution of a class defines its observation; any later one must repeat it
Step ==
    /\ l <= N
    /\ LET e == Tr[l]  c == Class(e)
       IN  IF \E k \in 1..Len(obs) : obs[k][1] = c
           THEN LET k == CHOOSE k \in 1..Len(obs) : obs[k][1] = c
                    same == obs[k][2] = Ob(e)
                IN  /\ PrintT(<<"EV", l, e.id, IF same THEN "ok" ELSE "MISMATCH", c, obs[k][3], e.secret, obs[k][2][1], e.records>>)
                    /\ obs' = obs
                    /\ bad' = IF same THEN bad ELSE bad \cup {c}
           ELSE /\ PrintT(<<"EV", l, e.id, "ok", c, "first", e.secret>>)
                /\ obs' = Append(obs, <<c, Ob(e), e.secret>>)
                /\ bad' = bad
    /\ l' = l + 1

TSpec == TInit /\ [][Step]_<<l, obs, bad>>
=============================================================================
