SPECIFICATION Spec
CONSTANTS
  KSet = {0, 1, 5, 16}
  TSet = {0, 1, 4}
  SSet = {0, 1, 5, 15, 16, 17, 18, 22, 31, 32, 33, 34, 39, 63, 64, 128, 255}
  HSet = {0, 1, 3, 16}
  LenSet = {0, 63, 64, 65}
  FastRejectMask = 224
INVARIANTS PipelineExact ScMinimalExact ZipWidens ZipDiffersOnlyOnSmall Unique HonestAccepted
CHECK_DEADLOCK FALSE
