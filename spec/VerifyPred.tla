----------------------------- MODULE VerifyPred -----------------------------
(***************************************************************************)
(* Single-signature verification of oasislabs/ed25519 (ed25519.go:282-337, *)
(* 445-481): the declarative acceptance predicate of properties C01/C05    *)
(* and the verification pipeline as the code executes it, one action per   *)
(* code block.  Scalar arithmetic is a parameter so that the same module   *)
(* is model-checked exhaustively on a scaled group (MCVerify: Z_17 x Z_8,  *)
(* TLC integers) and evaluated on real 253/256/512-bit values during trace *)
(* validation (VerifyExact: BigNat).                                       *)
(*                                                                         *)
(* Abstract inputs.  The curve group over GF(p) is cyclic of order 8L,     *)
(* i.e. Z_L x Z_8: a decodable point is [k]B + [t]T8, written as a record  *)
(*   [dec |-> TRUE, known |-> TRUE, k |-> scalar, t |-> 0..7]              *)
(* A string that does not decode has dec = FALSE.  A decodable string      *)
(* whose discrete logarithm the harness does not know carries              *)
(* known = FALSE and the concrete attribute small (8P = 0).                *)
(***************************************************************************)
EXTENDS Integers, Sequences

CONSTANTS
    SLtL(_),            \* the 256-bit little-endian value of the scalar half is < L
    Top3Clear(_),       \* ... is < 2^253      (code: sig[63] & 224 = 0)
    TopNibbleClear(_),  \* ... is < 2^252      (code: scalar[31] & 240 = 0)
    ScMinFastReject(_), \* scMinimal's fast reject: any of the 3 most significant bits set
    WordCompareLtL(_),  \* the word-wise comparison of scMinimal, for S in [2^252, 2^253)
    KZero(_),           \* k = 0 (mod L)
    EqnZero(_, _, _, _) \* EqnZero(S, h, kA, kR):  S - h*kA - kR = 0 (mod L)

SigLen == 64

(***************************************************************************)
(* Declarative predicate (the text of C01 / C05)                           *)
(***************************************************************************)
SmallOrder(Pt) == IF Pt.known THEN KZero(Pt.k) ELSE Pt.small

\* [8]([S]B - [h]A - R) = 0.  Multiplication by 8 kills the Z_8 component
\* and is a bijection on Z_L, so only the k-coordinates matter.
Equation(in) ==
    IF in.A.known /\ in.R.known THEN EqnZero(in.S, in.h, in.A.k, in.R.k) ELSE in.eq8

Accept(in) ==
    /\ in.siglen = SigLen
    /\ SLtL(in.S)
    /\ in.A.dec
    /\ in.R.dec
    /\ in.zip \/ (~SmallOrder(in.A) /\ ~SmallOrder(in.R))
    /\ Equation(in)

AcceptDefault(in) == Accept([in EXCEPT !.zip = FALSE])
AcceptZip(in)     == Accept([in EXCEPT !.zip = TRUE])

(***************************************************************************)
(* scMinimal as coded: fast accept, fast reject, word compare              *)
(***************************************************************************)
ScMinimal(S) ==
    IF TopNibbleClear(S) THEN TRUE
    ELSE IF ScMinFastReject(S) THEN FALSE
    ELSE WordCompareLtL(S)
=============================================================================
