INIT Init
NEXT Next
CONSTANTS C = 3 Layout = "f32" Variant = "nohalve"
INVARIANTS Square64Exact Square32Exact
CHECK_DEADLOCK FALSE
