------------------------------- MODULE Verify -------------------------------
(***************************************************************************)
(* The verification pipeline of verify() (ed25519.go:282-337), one action  *)
(* per code block, over the declarative predicate of VerifyPred.           *)
(***************************************************************************)
EXTENDS VerifyPred

(***************************************************************************)
(* The pipeline: one action per code block of verify()                     *)
(***************************************************************************)
VARIABLES pc, in, verdict
vars == <<pc, in, verdict>>

PInit(inputs) == /\ in \in inputs
                 /\ pc = "chk_len_high_decA"
                 /\ verdict = "none"

Reject == pc' = "done" /\ verdict' = FALSE /\ UNCHANGED in
Goto(l) == pc' = l /\ UNCHANGED <<in, verdict>>

\* ed25519.go:293  len(sig) != 64 || sig[63]&224 != 0 || !Unpack(A)
ChkLenHighDecA ==
    /\ pc = "chk_len_high_decA"
    /\ IF in.siglen # SigLen \/ ~Top3Clear(in.S) \/ ~in.A.dec THEN Reject ELSE Goto("small_A")

\* ed25519.go:298
SmallA ==
    /\ pc = "small_A"
    /\ IF ~in.zip /\ SmallOrder(in.A) THEN Reject ELSE Goto("hash")

\* ed25519.go:303-311   h = H(dom2 || R || A || M) over the bytes as supplied
Hash == pc = "hash" /\ Goto("sc_minimal")

\* ed25519.go:315
ScMin ==
    /\ pc = "sc_minimal"
    /\ IF ~ScMinimal(in.S) THEN Reject ELSE Goto("dec_R")

\* ed25519.go:319
DecR ==
    /\ pc = "dec_R"
    /\ IF ~in.R.dec THEN Reject ELSE Goto("small_R")

\* ed25519.go:324
SmallR ==
    /\ pc = "small_R"
    /\ IF ~in.zip /\ SmallOrder(in.R) THEN Reject ELSE Goto("equation")

\* ed25519.go:329-336  double scalar mult + cofactored comparison
Eqn ==
    /\ pc = "equation"
    /\ pc' = "done" /\ verdict' = Equation(in) /\ UNCHANGED in

PNext == ChkLenHighDecA \/ SmallA \/ Hash \/ ScMin \/ DecR \/ SmallR \/ Eqn

(***************************************************************************)
(* Properties                                                              *)
(***************************************************************************)
\* C01 / C05: the pipeline decides exactly the declarative predicate
PipelineExact == pc = "done" => verdict = Accept(in)

\* C04: scMinimal is exactly S < L
ScMinimalExact == ScMinimal(in.S) = SLtL(in.S)

\* C05: ZIP-215 only widens default mode, and only on small-order A or R
ZipWidens == AcceptDefault(in) => AcceptZip(in)
ZipDiffersOnlyOnSmall ==
    (AcceptDefault(in) # AcceptZip(in)) => (SmallOrder(in.A) \/ SmallOrder(in.R))

\* C09 (abstract side): refusal on small-order grounds happens exactly for k = 0
RejectedAtSmall ==
    (pc = "done" /\ verdict = FALSE /\ ~in.zip /\ in.siglen = SigLen /\ in.A.dec
       /\ Top3Clear(in.S) /\ SmallOrder(in.A)) => ~Accept(in)

=============================================================================
