INIT Init
NEXT Next
CONSTANTS Q = 37 Dd = 2 NB = 5 Variant = "noswap"
INVARIANTS LadderIsEdwards Agreement LowOrderRejected
CHECK_DEADLOCK FALSE
