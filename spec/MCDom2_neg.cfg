INIT Init
NEXT Next
CONSTANTS AllowPrefixR = TRUE
INVARIANTS LeftInverse
CHECK_DEADLOCK FALSE
