------------------------------- MODULE Edwards -------------------------------
(***************************************************************************)
(* The concrete curve  -x^2 + y^2 = 1 + d x^2 y^2  over GF(2^255-19) in    *)
(* exact arithmetic: extended coordinates, complete addition, scalar       *)
(* multiplication, the lenient decoding rule, canonical encoding, the map  *)
(* to Montgomery form and the RFC 7748 ladder.  Used by the trace specs    *)
(* for decode / encode / conversion events and to AUDIT the projection     *)
(* bytes <-> [k]B + [t]T8 that the harness computes with math/big.         *)
(***************************************************************************)
EXTENDS Fp

Pt(x, y, z, t) == [x |-> x, y |-> y, z |-> z, t |-> t]
Affine(x, y) == Pt(ReduceP(x), ReduceP(y), One, MulP(x, y))
Identity == Pt(Zero, One, One, Zero)
BasePoint == Affine(BX_, BY_)
T8Point == Affine(T8X_, T8Y_)

\* curve equation in projective form: (y^2 - x^2) z^2 = z^4 + d x^2 y^2, and t z = x y
OnCurve1(p, xx, yy, zz) ==
    /\ EqP(MulP(SubP(yy, xx), zz), AddP(SqrP(zz), MulP(D, MulP(xx, yy))))
    /\ EqP(MulP(p.t, p.z), MulP(p.x, p.y))
OnCurve(p) == OnCurve1(p, SqrP(p.x), SqrP(p.y), SqrP(p.z))

\* complete unified addition (add-2008-hwcd-3, a = -1); helper operators instead of LET
PtAdd2(e, f, g, h) == Pt(MulP(e, f), MulP(g, h), MulP(f, g), MulP(e, h))
PtAdd1(a, b, c, d) == PtAdd2(SubP(b, a), SubP(d, c), AddP(d, c), AddP(b, a))
PtAdd(p, q) ==
    PtAdd1(MulP(SubP(p.y, p.x), SubP(q.y, q.x)),
           MulP(AddP(p.y, p.x), AddP(q.y, q.x)),
           MulP(MulP(p.t, q.t), D2),
           MulP(AddP(p.z, p.z), q.z))

PtDbl(p) == PtAdd(p, p)
PtNeg(p) == Pt(NegP(p.x), p.y, p.z, NegP(p.t))
PtEq(p, q) == EqP(MulP(p.x, q.z), MulP(q.x, p.z)) /\ EqP(MulP(p.y, q.z), MulP(q.y, p.z))
IsIdentity(p) == IsZero(ReduceP(p.x)) /\ EqP(p.y, p.z)
Mul8(p) == PtDbl(PtDbl(PtDbl(p)))
IsSmallOrder(p) == IsIdentity(Mul8(p))

\* [k]P by left-to-right double-and-add over the bits of k (i = index of the next bit, -1 = done)
RECURSIVE SMulRec(_, _, _, _)
SMulStep(k, p, i, d) == SMulRec(k, p, i - 1, IF Bit(k, i) = 1 THEN PtAdd(d, p) ELSE d)
SMulRec(k, p, i, acc) == IF i < 0 THEN acc ELSE SMulStep(k, p, i, PtDbl(acc))
ScalarMul(k, p) == SMulRec(k, p, BitLen(k) - 1, Identity)

\* the isomorphism Z_L x Z_8 -> E(GF(p))
Iso(k, t) == PtAdd(ScalarMul(k, BasePoint), ScalarMul(FromInt(t), T8Point))

(***************************************************************************)
(* Lenient decoding (C10): y = (low 255 bits) mod p; accepted iff          *)
(* u/v = (y^2-1)/(d y^2+1) is a square; x has the parity of bit 255        *)
(* (either value when x = 0).  Squareness is decided by a witness.         *)
(***************************************************************************)
YOf(bs) == ReduceP(LowBits(FromBytes(bs), 255))
SignBit(bs) == bs[32] \div 128
UOf(y) == SubP(SqrP(y), One)
VOf(y) == AddP(MulP(D, SqrP(y)), One)

\* w witnesses that bs decodes (w = the decoded x) / does not decode (w^2 v = 2u, u # 0)
WitnessSquare(bs, w)    == IsSqrtOfRatio(w, UOf(YOf(bs)), VOf(YOf(bs)))
WitnessNonSquare(bs, w) == IsNonSquareWit(w, UOf(YOf(bs)), VOf(YOf(bs)))

\* the decoded point, given the square-root witness (any of the two roots)
DecodeX(bs, r) == IF IsZero(r) THEN Zero
                  ELSE IF (IF IsOdd(r) THEN 1 ELSE 0) = SignBit(bs) THEN r ELSE NegP(r)
DecodeWith(bs, w) == Affine(DecodeX(bs, ReduceP(w)), YOf(bs))

\* canonical encoding, given zi = 1/z
Encode1(x, yb) == [yb EXCEPT ![32] = @ + (IF IsOdd(x) THEN 128 ELSE 0)]
EncodeWith(p, zi) == Encode1(MulP(p.x, zi), ToBytes(MulP(p.y, zi), 32))

(***************************************************************************)
(* Montgomery side (C11, C12)                                              *)
(***************************************************************************)
\* u = (1 + y)/(1 - y), 0 when y = 1; inv = 1/(1-y) witness (ignored when y = 1)
MontU(y, inv) == IF EqP(y, One) THEN Zero ELSE MulP(AddP(One, y), inv)
MontUWitnessOk(y, inv) == EqP(y, One) \/ IsInvP(SubP(One, y), inv)

\* RFC 7748 section 5 ladder on the u-coordinate; k is used as given (already clamped), 255 steps
\* one ladder step for bit t of k on the state st = <<x2, z2, x3, z3, swap>>
Ladder3(x1, kt, AA, BB, E, DA, CB) ==
    <<MulP(AA, BB), MulP(E, AddP(AA, MulP(A24_, E))), SqrP(AddP(DA, CB)), MulP(x1, SqrP(SubP(DA, CB))), kt>>
Ladder2(x1, kt, A, B, C, DD) == Ladder3(x1, kt, SqrP(A), SqrP(B), SubP(SqrP(A), SqrP(B)), MulP(DD, A), MulP(C, B))
Ladder1(x1, kt, a2, c2, a3, c3) == Ladder2(x1, kt, AddP(a2, c2), SubP(a2, c2), AddP(a3, c3), SubP(a3, c3))
LadderOne(k, x1, st, t) ==
    IF ((st[5] + Bit(k, t)) % 2) = 1
    THEN Ladder1(x1, Bit(k, t), st[3], st[4], st[1], st[2])
    ELSE Ladder1(x1, Bit(k, t), st[1], st[2], st[3], st[4])

RECURSIVE LadderRec(_, _, _, _)
LadderRec(k, x1, st, t) == IF t < 0 THEN st ELSE LadderRec(k, x1, LadderOne(k, x1, st, t), t - 1)

\* result as the pair <<x2, z2>> (u = x2 / z2, 0 if z2 = 0)
Ladder0(r) == IF r[5] = 1 THEN <<r[3], r[4]>> ELSE <<r[1], r[2]>>
LadderX(x1, k) == Ladder0(LadderRec(k, x1, <<One, Zero, x1, One, 0>>, 254))
Ladder(k, u) == LadderX(ReduceP(u), k)

\* out is the ladder result:  out * z2 = x2, or z2 = 0 and out = 0
LadderResultIs1(r, out) == IF IsZero(r[2]) THEN IsZero(ReduceP(out)) ELSE EqP(MulP(out, r[2]), r[1])
LadderResultIs(k, u, out) == LadderResultIs1(Ladder(k, u), out)

\* RFC 7748 / RFC 8032 clamping of 32 bytes: clear bits 0, 1, 2 and 255, set bit 254
ClampBytes32(bs) == SubSeq([i \in 1..32 |-> IF i = 1 THEN bs[1] - ((bs[1]) % 8)
                                            ELSE IF i = 32 THEN (((bs[32]) % 128) % 64) + 64 ELSE bs[i]], 1, 32)
ClampScalar(bs) == FromBytes(ClampBytes32(bs))

ASSUME BaseOnCurve == OnCurve(BasePoint)
ASSUME T8OnCurve   == OnCurve(T8Point)
ASSUME T8Order8    == IsIdentity(Mul8(T8Point)) /\ ~IsIdentity(PtDbl(PtDbl(T8Point)))
=============================================================================
