---------------------------- MODULE FieldLimbsBig ----------------------------
(***************************************************************************)
(* The limb-level transcription of the field files at the REAL limb sizes, *)
(* in BigNat arithmetic: the operators of FieldLimbs (5x51), FieldLimbs32  *)
(* (10x25.5) and FieldSquare with the real widths and C = 19.  TraceNum    *)
(* evaluates them on the operand limbs of every recorded Add / Sub /       *)
(* AddAfterBasic / SubAfterBasic / AddReduce / SubReduce / Neg / Mul /     *)
(* Square / SquareTimes call and compares the predicted limbs with the     *)
(* limbs the code returned - limb for limb.  This is what binds the scaled *)
(* R1 models to the implementation: the structure TLC explores             *)
(* exhaustively at 3 bits is the structure the code executes at 51 and     *)
(* 25.5 bits.  A difference is reported as a NOTE (a different carry       *)
(* schedule may still compute the right residue; C18 demands the residue,  *)
(* which TraceNum checks separately); it is 0 on the current tree.         *)
(* All arithmetic is exact: a uint32 / uint64 wrap in the code would show  *)
(* up as a difference.                                                     *)
(***************************************************************************)
EXTENDS BigNat

FLNL(ly) == IF ly = "f51" THEN 5 ELSE 10
FLW(ly, i) == IF ly = "f51" THEN 51 ELSE IF i % 2 = 1 THEN 25 ELSE 26          \* width of limb i (0-based)
FLOdd(i) == i % 2 = 1
FLOne == FromInt(1)
FLTwoP(ly, i)  == MulSmall(Sub(Pow2(FLW(ly, i)), FromInt(IF i = 0 THEN 19 ELSE 1)), 2)
FLFourP(ly, i) == MulSmall(Sub(Pow2(FLW(ly, i)), FromInt(IF i = 0 THEN 19 ELSE 1)), 4)
FLVec(ly, f(_)) == LET n == FLNL(ly) IN SubSeq([k \in 1..n |-> f(k - 1)], 1, n)
FLLimbs(x) == SubSeq([k \in 1..Len(x) |-> FromBytes(x[k])], 1, Len(x))
FLBytes(v) == SubSeq([k \in 1..Len(v) |-> ToBytes(v[k], 8)], 1, Len(v))

\* full carry chain, top carry times 19 into limb 0
RECURSIVE FLFull(_, _, _, _, _)
FLFull(ly, t, i, c, acc) ==
    IF i >= FLNL(ly) THEN [acc EXCEPT ![1] = Add(@, MulSmall(c, 19))]
    ELSE LET v == Add(t[i + 1], c) IN FLFull(ly, t, i + 1, ShiftRight(v, FLW(ly, i)), Append(acc, LowBits(v, FLW(ly, i))))
\* 32-bit Sub: limbs 0..3 carried and masked, the carry into limb 4, the rest untouched
RECURSIVE FLPart(_, _, _, _, _)
FLPart(ly, t, i, c, acc) ==
    IF i >= FLNL(ly) THEN acc
    ELSE LET v == Add(t[i + 1], c)
         IN  IF i < 4 THEN FLPart(ly, t, i + 1, ShiftRight(v, FLW(ly, i)), Append(acc, LowBits(v, FLW(ly, i))))
             ELSE FLPart(ly, t, i + 1, Zero, Append(acc, v))

FLSum(ly, a, b)   == LET f(i) == Add(a[i + 1], b[i + 1]) IN FLVec(ly, f)
FLDiff2(ly, a, b) == LET f(i) == Sub(Add(FLTwoP(ly, i), a[i + 1]), b[i + 1]) IN FLVec(ly, f)
FLDiff4(ly, a, b) == LET f(i) == Sub(Add(FLFourP(ly, i), a[i + 1]), b[i + 1]) IN FLVec(ly, f)
FLNeg2(ly, a)     == LET f(i) == Sub(FLTwoP(ly, i), a[i + 1]) IN FLVec(ly, f)

FLAdd(ly, a, b)           == FLSum(ly, a, b)
FLAddAfterBasic(ly, a, b) == IF ly = "f51" THEN FLSum(ly, a, b) ELSE FLFull(ly, FLSum(ly, a, b), 0, Zero, << >>)
FLAddReduce(ly, a, b)     == FLFull(ly, FLSum(ly, a, b), 0, Zero, << >>)
FLSub(ly, a, b)           == IF ly = "f51" THEN FLDiff2(ly, a, b) ELSE FLPart(ly, FLDiff2(ly, a, b), 0, Zero, << >>)
FLSubAfterBasic(ly, a, b) == IF ly = "f51" THEN FLDiff4(ly, a, b) ELSE FLFull(ly, FLDiff4(ly, a, b), 0, Zero, << >>)
FLSubReduce(ly, a, b)     == FLFull(ly, FLDiff4(ly, a, b), 0, Zero, << >>)
FLNeg(ly, a)              == FLFull(ly, FLNeg2(ly, a), 0, Zero, << >>)

\* column k of a * b: the direct products, the wrapped ones times 19; in the 10x25.5 layout odd x odd products count twice
FLCoef(ly, i, j) == IF ly # "f51" /\ FLOdd(i) /\ FLOdd(j) THEN 2 ELSE 1
RECURSIVE FLCol(_, _, _, _, _, _)
FLCol(ly, a, b, k, i, acc) ==
    IF i >= FLNL(ly) THEN acc
    ELSE LET j0 == k - i   j1 == k + FLNL(ly) - i
             d  == IF j0 >= 0 /\ j0 < FLNL(ly) THEN MulSmall(Mul(b[i + 1], a[j0 + 1]), FLCoef(ly, i, j0)) ELSE Zero
             w  == IF j1 >= 0 /\ j1 < FLNL(ly) THEN MulSmall(Mul(b[i + 1], a[j1 + 1]), 19 * FLCoef(ly, i, j1)) ELSE Zero
         IN  FLCol(ly, a, b, k, i + 1, Add(acc, Add(d, w)))
FLCols(ly, a, b) == LET f(k) == FLCol(ly, a, b, k, 0, Zero) IN FLVec(ly, f)

\* the sequential reduction of Mul / Square (both files) and of the 32-bit SquareTimes:
\* carry through the columns, top carry times 19 into limb 0, its carry into limb 1
RECURSIVE FLSeq(_, _, _, _, _)
FLSeq(ly, m, i, c, acc) ==
    IF i >= FLNL(ly) THEN <<acc, c>>
    ELSE LET v == Add(m[i + 1], c) IN FLSeq(ly, m, i + 1, ShiftRight(v, FLW(ly, i)), Append(acc, LowBits(v, FLW(ly, i))))
FLReduceSeq(ly, m) ==
    LET ch == FLSeq(ly, m, 0, Zero, << >>)
        r  == ch[1]
        m0 == Add(r[1], MulSmall(ch[2], 19))
    IN  [r EXCEPT ![1] = LowBits(m0, FLW(ly, 0)), ![2] = Add(r[2], ShiftRight(m0, FLW(ly, 0)))]
\* the 64-bit SquareTimes: five parallel carries, then a sequential pass
FLReducePar(m) ==
    LET lo(k) == LowBits(m[k], 51)   hi(k) == ShiftRight(m[k], 51)
        r0a == Add(lo(1), MulSmall(hi(5), 19))
        r1a == Add(lo(2), hi(1))   r2a == Add(lo(3), hi(2))   r3a == Add(lo(4), hi(3))   r4a == Add(lo(5), hi(4))
        r1b == Add(r1a, ShiftRight(r0a, 51))
        r2b == Add(r2a, ShiftRight(r1b, 51))
        r3b == Add(r3a, ShiftRight(r2b, 51))
        r4b == Add(r4a, ShiftRight(r3b, 51))
    IN  << Add(LowBits(r0a, 51), MulSmall(ShiftRight(r4b, 51), 19)), LowBits(r1b, 51), LowBits(r2b, 51), LowBits(r3b, 51), LowBits(r4b, 51) >>

FLMul(ly, a, b) == FLReduceSeq(ly, FLCols(ly, a, b))
FLSquare(ly, a) == FLReduceSeq(ly, FLCols(ly, a, a))
FLSquareStep(ly, a) == IF ly = "f51" THEN FLReducePar(FLCols(ly, a, a)) ELSE FLReduceSeq(ly, FLCols(ly, a, a))
RECURSIVE FLSquareTimes(_, _, _)
FLSquareTimes(ly, a, n) == IF n = 0 THEN a ELSE FLSquareTimes(ly, FLSquareStep(ly, a), n - 1)

FLKnown == {"Add", "AddAfterBasic", "AddReduce", "Sub", "SubAfterBasic", "SubReduce", "Neg", "Mul", "Square", "SquareTimes"}
\* the predicted limbs (as 8-byte strings) of a recorded call
FLPredict(ly, f, a, b, n) ==
    FLBytes(CASE f = "Add"           -> FLAdd(ly, a, b)
              [] f = "AddAfterBasic" -> FLAddAfterBasic(ly, a, b)
              [] f = "AddReduce"     -> FLAddReduce(ly, a, b)
              [] f = "Sub"           -> FLSub(ly, a, b)
              [] f = "SubAfterBasic" -> FLSubAfterBasic(ly, a, b)
              [] f = "SubReduce"     -> FLSubReduce(ly, a, b)
              [] f = "Neg"           -> FLNeg(ly, a)
              [] f = "Mul"           -> FLMul(ly, a, b)
              [] f = "Square"        -> FLSquare(ly, a)
              [] f = "SquareTimes"   -> FLSquareTimes(ly, a, n))
=============================================================================
