--------------------------------- MODULE ZL ---------------------------------
(***************************************************************************)
(* Arithmetic modulo the group order L = 2^252 + c in exact BigNat.        *)
(* ModL is computed natively from 2^252 = -c (mod L): no witness needed.   *)
(***************************************************************************)
EXTENDS Consts25519

L  == L_
LC == LC_

ASSUME LDef == Eq(L, Add(Pow2(252), LC))

\* x == pos - neg (mod L), with pos, neg sums of few numbers below 2^252
RECURSIVE FoldL(_)
FoldL(x) ==
    IF BitLen(x) <= 252 THEN <<Norm(x), Zero>>
    ELSE LET lo == LowBits(x, 252)
             hi == ShiftRight(x, 252)
             pr == FoldL(Mul(hi, LC))          \* hi*2^252 == -(hi*c)
         IN  <<Add(lo, pr[2]), pr[1]>>

RECURSIVE SubWhileGe(_, _)
SubWhileGe(x, m) == IF Le(m, x) THEN SubWhileGe(Sub(x, m), m) ELSE x

ModL(x) ==
    LET pr == FoldL(x)
        \* pos, neg < 8 * 2^252 each, so pos + 8L - neg is positive
    IN  SubWhileGe(Sub(Add(pr[1], MulSmall(L, 8)), pr[2]), L)

AddL(a, b) == ModL(Add(a, b))
MulL(a, b) == ModL(Mul(a, b))
NegL(a)    == LET r == ModL(a) IN IF IsZero(r) THEN Zero ELSE Sub(L, r)
SubL(a, b) == AddL(a, NegL(b))
EqL(a, b)  == Eq(ModL(a), ModL(b))
IsCanonL(a) == Lt(a, L)

=============================================================================
