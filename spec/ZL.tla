--------------------------------- MODULE ZL ---------------------------------
(***************************************************************************)
(* Arithmetic modulo the group order L = 2^252 + c in exact BigNat.        *)
(* ModL is computed natively from 2^252 = -c (mod L): no witness needed.   *)
(***************************************************************************)
EXTENDS Consts25519

L  == L_
LC == LC_

ASSUME LDef == Eq(L, Add(Pow2(252), LC))

\* x == pos - neg (mod L), with pos, neg sums of few numbers below 2^252
\* (helper operators instead of LET: see the evaluation note in BigNat)
RECURSIVE FoldL(_)
FoldL1(lo, pr) == <<Add(lo, pr[2]), pr[1]>>
FoldL(x) ==
    IF BitLen(x) <= 252 THEN <<Norm(x), Zero>>
    ELSE FoldL1(LowBits(x, 252), FoldL(Mul(ShiftRight(x, 252), LC)))     \* hi*2^252 == -(hi*c)

RECURSIVE SubWhileGe(_, _)
SubWhileGe(x, m) == IF Le(m, x) THEN SubWhileGe(Sub(x, m), m) ELSE x

L8 == MulSmall(L, 8)
\* pos, neg < 8 * 2^252 each, so pos + 8L - neg is positive
ModL1(pr) == SubWhileGe(Sub(Add(pr[1], L8), pr[2]), L)
ModL(x) == ModL1(FoldL(x))

AddL(a, b) == ModL(Add(a, b))
MulL(a, b) == ModL(Mul(a, b))
NegL1(r)   == IF IsZero(r) THEN Zero ELSE Sub(L, r)
NegL(a)    == NegL1(ModL(a))
SubL(a, b) == AddL(a, NegL(b))
EqL(a, b)  == Eq(ModL(a), ModL(b))
IsCanonL(a) == Lt(a, L)

=============================================================================
