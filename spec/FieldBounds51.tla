---------------------------- MODULE FieldBounds51 ----------------------------
(***************************************************************************)
(* R1 for C18 / C16, real limb sizes: machine-word headroom of the 5x51     *)
(* field layout (curve25519_donna_64bit.go) under the point formulas of     *)
(* ge25519.go; the companion of FieldBounds32 (see there for the method).   *)
(* Bounds are in units of 1/64 of 2^51.  What differs from the 32-bit file: *)
(*   Sub / SubAfterBasic do not carry at all (bias 2p resp. 4p on every     *)
(*   limb: 128 + f resp. 256 + f), AddAfterBasic is a plain addition, only  *)
(*   AddReduce / SubReduce / Neg carry;                                     *)
(*   Mul accumulates 128-bit columns t_k; each carry c = t_k >> 51 is kept  *)
(*   in a uint64 (needs t_k < 2^115) and the last one is multiplied by 19   *)
(*   in a uint64 (needs 19 (t_4 >> 51) + r_0 < 2^64); 19 r_i < 2^64.        *)
(* Controls: SubAfterBasic applied twice in a row in front of Mul (the      *)
(* bias 4p accumulates), and a Mul operand of 2^57.                         *)
(***************************************************************************)
EXTENDS Integers, Sequences

CONSTANT Variant      \* "code" | "sub_nocarry" (= two SubAfterBasic in a row) | "three_adds" (= an operand of 2^57)

NL == 5
L(a, i) == a[i + 1]
WordU == 64 * 8192                 \* 2^64 in units of 2^45

Masked  == [k \in 1..NL |-> 64]
Carried == [k \in 1..NL |-> IF k = 1 THEN 65 ELSE 64]
MulOut  == [k \in 1..NL |-> IF k = 2 THEN 65 ELSE 64]

AddB(x, y) == <<[k \in 1..NL |-> x[k] + y[k]], \A k \in 1..NL : x[k] + y[k] < WordU>>
SubB(x, y) == <<[k \in 1..NL |-> 128 + x[k]], \A k \in 1..NL : y[k] <= 127>>
\* AddAfterBasic: plain; SubAfterBasic: bias 4p, no carry - they are NOT the carried forms in this layout
AddRB(x, y) == <<[k \in 1..NL |-> x[k] + y[k]], TRUE>>
SubRB(x, y) == <<[k \in 1..NL |-> 256 + x[k]], \A k \in 1..NL : y[k] <= 255>>
SubReduceB(x, y) == <<Carried, \A k \in 1..NL : y[k] <= 255>>
AddReduceB(x, y) == <<Carried, \A k \in 1..NL : x[k] + y[k] + 1 < WordU>>
NegB(x)     == <<Carried, \A k \in 1..NL : x[k] <= 127>>

\* Mul: column k in units of 2^90
RECURSIVE ColU(_, _, _, _)
ColU(x, y, k, i) ==
    IF i >= NL THEN 0
    ELSE LET j0 == k - i   j1 == k + NL - i
         IN  (IF j0 >= 0 /\ j0 < NL THEN L(y, i) * L(x, j0) ELSE 0)
           + (IF j1 >= 0 /\ j1 < NL THEN 19 * L(y, i) * L(x, j1) ELSE 0)
           + ColU(x, y, k, i + 1)
\* 2^115 = 2^25 units
MulB(x, y) ==
    <<MulOut,
      /\ \A i \in 0..(NL - 1) : L(x, i) < 20000 /\ L(y, i) < 20000 /\ 19 * L(y, i) < WordU          \* (keeps TLC's integers in range, far above every class)
      /\ \A k \in 0..(NL - 1) : ColU(x, y, k, 0) + 1 < 33554432
      /\ 19 * (ColU(x, y, NL - 1, 0) + 1) < 33554432>>
SquareB(x) == MulB(x, x)

\* combine: a formula is a chain of transformers; Ok collects the side conditions
B(r) == r[1]
Ok(r) == r[2]

\* ---- operand classes ----
Coord  == [k \in 1..NL |-> 65]                 \* any coordinate of a point: Mul output or carried value, limbs 0 / 1 up to 65
Const  == Masked                                \* ec2d, ecd, table entries after Expand
NielsE == Coord                                 \* niels entries (Expand, or Neg for the negated t2d)
\* pniels entries as full_to_pniels / pnielsadd leave them
PnYsubX == B(SubB(Coord, Coord))
PnXaddY == B(AddB(Coord, Coord))

\* ---- the point formulas (ge25519.go), each returning the conjunction of all side conditions ----
P1p1ToFullOk(x, y, z, t) == Ok(MulB(x, t)) /\ Ok(MulB(y, z)) /\ Ok(MulB(z, t)) /\ Ok(MulB(x, y))

AddP1p1Ok ==
    LET a == SubB(Coord, Coord)   b == AddB(Coord, Coord)   t == SubB(Coord, Coord)   u == AddB(Coord, Coord)
        a2 == MulB(B(a), B(t))    b2 == MulB(B(b), B(u))
        c  == MulB(Coord, Coord)  c2 == MulB(B(c), Const)
        d  == MulB(Coord, Coord)  d2 == AddB(B(d), B(d))
        rx == SubB(B(b2), B(a2))  ry == AddB(B(b2), B(a2))
        rz == AddRB(B(d2), B(c2)) rt == SubRB(B(d2), B(c2))
    IN  /\ Ok(a) /\ Ok(b) /\ Ok(t) /\ Ok(u) /\ Ok(a2) /\ Ok(b2) /\ Ok(c) /\ Ok(c2) /\ Ok(d) /\ Ok(d2)
        /\ Ok(rx) /\ Ok(ry) /\ Ok(rz) /\ Ok(rt)
        /\ P1p1ToFullOk(B(rx), B(ry), B(rz), B(rt))

DoubleP1p1Ok ==
    LET a == SquareB(Coord)   b == SquareB(Coord)   c == SquareB(Coord)
        c2 == AddReduceB(B(c), B(c))
        s  == AddB(Coord, Coord)   s2 == SquareB(B(s))
        ry == AddB(B(b), B(a))     rz == SubB(B(b), B(a))
        rx == SubRB(B(s2), B(ry))  rt == SubRB(B(c2), B(rz))
    IN  /\ Ok(a) /\ Ok(c2) /\ Ok(s) /\ Ok(s2) /\ Ok(ry) /\ Ok(rz) /\ Ok(rx) /\ Ok(rt)
        /\ P1p1ToFullOk(B(rx), B(ry), B(rz), B(rt))

\* nielsadd2_p1p1 / pnielsadd_p1p1 (both sign bits give the same classes), q's entries as given
MixedAddOk(qa, qb, qt, zterm) ==
    LET a == SubB(Coord, Coord)   b == AddB(Coord, Coord)
        a2 == MulB(B(a), qa)      x2 == MulB(B(b), qb)
        ry == AddB(B(x2), B(a2))  rx == SubB(B(x2), B(a2))
        c  == MulB(Coord, qt)
        t2 == AddReduceB(zterm, zterm)
        rz == AddB(B(t2), B(c))   rt == SubB(B(t2), B(c))
    IN  /\ Ok(a) /\ Ok(b) /\ Ok(a2) /\ Ok(x2) /\ Ok(ry) /\ Ok(rx) /\ Ok(c) /\ Ok(t2) /\ Ok(rz) /\ Ok(rt)
        /\ P1p1ToFullOk(B(rx), B(ry), B(rz), B(rt))
        /\ P1p1ToFullOk(B(rx), B(ry), B(rt), B(rz))          \* sign bit 1: z and t change places
NielsAdd2P1p1Ok  == MixedAddOk(NielsE, NielsE, NielsE, Coord)
PnielsAddP1p1Ok  == Ok(MulB(Coord, Coord)) /\ MixedAddOk(PnYsubX, PnXaddY, MulOut, MulOut) /\ MixedAddOk(PnXaddY, PnYsubX, MulOut, MulOut)

\* nielsadd2 (in place, full result)
NielsAdd2Ok ==
    LET a == SubB(Coord, Coord)   b == AddB(Coord, Coord)
        a2 == MulB(B(a), NielsE)  e0 == MulB(B(b), NielsE)
        h == AddB(B(e0), B(a2))   e == SubB(B(e0), B(a2))
        c == MulB(Coord, NielsE)
        f0 == AddB(Coord, Coord)
        g == AddRB(B(f0), B(c))   f == SubRB(B(f0), B(c))
    IN  /\ Ok(a) /\ Ok(b) /\ Ok(a2) /\ Ok(e0) /\ Ok(h) /\ Ok(e) /\ Ok(c) /\ Ok(f0) /\ Ok(g) /\ Ok(f)
        /\ Ok(MulB(B(e), B(f))) /\ Ok(MulB(B(h), B(g))) /\ Ok(MulB(B(g), B(f))) /\ Ok(MulB(B(e), B(h)))

\* pnielsadd (pniels result)
PnielsAddOk ==
    LET a == SubB(Coord, Coord)   b == AddB(Coord, Coord)
        a2 == MulB(B(a), PnYsubX) x0 == MulB(B(b), PnXaddY)
        y == AddB(B(x0), B(a2))   x == SubB(B(x0), B(a2))
        c == MulB(Coord, MulOut)
        t0 == MulB(Coord, MulOut) t1 == AddB(B(t0), B(t0))
        z == AddRB(B(t1), B(c))   t == SubRB(B(t1), B(c))
        X3 == MulB(B(x), B(t))    Y3 == MulB(B(y), B(z))
    IN  /\ Ok(a) /\ Ok(b) /\ Ok(a2) /\ Ok(x0) /\ Ok(y) /\ Ok(x) /\ Ok(c) /\ Ok(t0) /\ Ok(t1) /\ Ok(z) /\ Ok(t)
        /\ Ok(X3) /\ Ok(Y3) /\ Ok(MulB(B(z), B(t))) /\ Ok(MulB(B(x), B(y)))
        /\ Ok(SubB(B(Y3), B(X3))) /\ Ok(AddB(B(X3), B(Y3))) /\ Ok(MulB(MulOut, Const))

\* geSub (cofactor_equal.go)
GeSubOk ==
    LET rx0 == AddB(Coord, Coord)   ry0 == SubB(Coord, Coord)
        rz0 == MulB(B(rx0), PnYsubX) ry1 == MulB(B(ry0), PnXaddY)
        rt0 == MulB(MulOut, Coord)
        zz  == MulB(Coord, MulOut)   t0 == AddB(B(zz), B(zz))
        rx == SubB(B(rz0), B(ry1))   ry == AddB(B(rz0), B(ry1))
        rz == SubRB(B(t0), B(rt0))   rt == AddRB(B(t0), B(rt0))
    IN  /\ Ok(rx0) /\ Ok(ry0) /\ Ok(rz0) /\ Ok(ry1) /\ Ok(rt0) /\ Ok(zz) /\ Ok(t0) /\ Ok(rx) /\ Ok(ry) /\ Ok(rz) /\ Ok(rt)
        /\ P1p1ToFullOk(B(rx), B(ry), B(rz), B(rt))

\* ScalarmultBaseNiels' start: x = SubReduce(xaddy, ysubx), y = AddReduce; u = (y + z) / (z - y) of ScalarBaseMult
StartOk == Ok(SubReduceB(NielsE, NielsE)) /\ Ok(AddReduceB(NielsE, NielsE)) /\ Ok(MulB(NielsE, Const))
MontOk  == LET s == AddB(Coord, Coord)  d == SubB(Coord, Coord) IN Ok(s) /\ Ok(d) /\ Ok(SquareB(B(d))) /\ Ok(MulB(B(s), MulOut))


\* UnpackNegativeVartime / Pack (ge25519.go:294-357): the decode formula and the encode formula
UnpackOk ==
    LET y == Masked   one == Masked
        num0 == SquareB(y)            den0 == MulB(B(num0), Const)
        num == SubReduceB(B(num0), one)   den == AddB(B(den0), one)
        t == SquareB(B(den))          d3 == MulB(B(t), B(den))
        x0 == SquareB(B(d3))          x1 == MulB(B(x0), B(den))      x2 == MulB(B(x1), B(num))
        x3 == SquareB(B(x2))          \* PowTwo252m3: squarings and multiplications of Mul outputs
        x4 == MulB(MulOut, B(d3))     x5 == MulB(B(x4), B(num))
        t2 == SquareB(B(x5))          t3 == MulB(B(t2), B(den))
        root == SubReduceB(B(t3), B(num))   t4 == AddReduceB(B(t3), B(num))
        x6 == MulB(B(x5), Const)      xn == NegB(MulOut)
    IN  /\ Ok(num0) /\ Ok(den0) /\ Ok(num) /\ Ok(den) /\ Ok(t) /\ Ok(d3) /\ Ok(x0) /\ Ok(x1) /\ Ok(x2) /\ Ok(x3) /\ Ok(x4) /\ Ok(x5)
        /\ Ok(t2) /\ Ok(t3) /\ Ok(root) /\ Ok(t4) /\ Ok(x6) /\ Ok(xn) /\ Ok(MulB(B(xn), y)) /\ Ok(MulB(MulOut, y))
PackOk == Ok(SquareB(Coord)) /\ Ok(MulB(MulOut, Coord)) /\ Ok(MulB(Coord, MulOut))

\* control: three additions in a row feed Mul
ThreeAddsOk == LET s == [k \in 1..NL |-> 4096] IN Ok(MulB(s, s))
TwoSubABOk == LET s == SubRB(B(SubRB(B(AddB(Coord, Coord)), Coord)), Coord) IN Ok(MulB(B(s), B(s)))

AllOk == /\ Ok(NegB(Masked)) /\ AddP1p1Ok /\ DoubleP1p1Ok /\ NielsAdd2P1p1Ok /\ PnielsAddP1p1Ok /\ NielsAdd2Ok /\ PnielsAddOk /\ GeSubOk /\ StartOk /\ MontOk /\ UnpackOk /\ PackOk
         /\ (Variant = "three_adds" => ThreeAddsOk) /\ (Variant = "sub_nocarry" => TwoSubABOk)

VARIABLE done
Init == done = FALSE
Next == done' = TRUE
NoOverflow == AllOk
=============================================================================
