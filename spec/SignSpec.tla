------------------------------ MODULE SignSpec ------------------------------
(***************************************************************************)
(* RFC 8032 sections 5.1.5 (key generation) and 5.1.6 (signing) for        *)
(* Ed25519, Ed25519ctx and Ed25519ph in exact arithmetic, with SHA-512 as  *)
(* an uninterpreted function whose graph is supplied by the trace.         *)
(* Also the option handling of the library (Options.unwrap, checkHash,     *)
(* ed25519.go:101-136) as an outcome table.                                *)
(***************************************************************************)
EXTENDS ZL

\* ---- bytes ----
And248(b) == b - ((b) % 8)
And127(b) == ((b) % 128)
Or64(b)   == IF (((b \div 64)) % 2) = 0 THEN b + 64 ELSE b

\* clamp of the first half of SHA-512(seed): clear bits 0,1,2 and 255, set bit 254
ClampBytes(bs) == [i \in 1..32 |-> IF i = 1 THEN And248(bs[1]) ELSE IF i = 32 THEN Or64(And127(bs[32])) ELSE bs[i]]
SecretScalar(hs) == FromBytes(SubSeq(ClampBytes(hs), 1, 32))

\* "SigEd25519 no Ed25519 collisions"
Dom2Prefix == <<83, 105, 103, 69, 100, 50, 53, 53, 49, 57, 32, 110, 111, 32, 69, 100, 50, 53, 53, 49, 57, 32,
                99, 111, 108, 108, 105, 115, 105, 111, 110, 115>>

\* dom2(F, C) = prefix || octet(F) || octet(len(C)) || C ; empty for plain Ed25519
Dom2(variant, ctx) ==
    IF variant = "pure" THEN << >>
    ELSE Dom2Prefix \o <<IF variant = "ph" THEN 1 ELSE 0, Len(ctx)>> \o ctx

\* the signature scalar: S = (r + k a) mod L with r, k the reduced hashes
NonceScalar(hr) == ModL(FromBytes(hr))
SigScalar(hr, hk, a) == ModL(Add(NonceScalar(hr), Mul(ModL(FromBytes(hk)), ModL(a))))

(***************************************************************************)
(* Option handling: which variant is selected, or which refusal.           *)
(*   style   "hash0" = crypto.Hash(0) passed as SignerOpts, "sha512" =     *)
(*           crypto.SHA512 passed as SignerOpts, "options" = pointer to    *)
(*           Options with Hash and Context                                 *)
(*   hash    0 | 512 | other selector (only with style "options", or a     *)
(*           foreign crypto.Hash passed as SignerOpts)                     *)
(*   outcome "pure" | "ctx" | "ph" | "errCtx" | "errDigest" | "errHash"    *)
(***************************************************************************)
MaxCtx == 255

Outcome(style, hash, ctxLen, msgLen) ==
    LET cl == IF style = "options" THEN ctxLen ELSE 0     \* a bare crypto.Hash carries no context
    IN  IF cl > MaxCtx THEN "errCtx"
        ELSE IF hash = 512 THEN (IF msgLen # 64 THEN "errDigest" ELSE "ph")
        ELSE IF hash = 0 THEN (IF cl > 0 THEN "ctx" ELSE "pure")
        ELSE "errHash"

\* how the refusal surfaces at each entry point (C07 / C13)
Surface(api, outcome) ==
    IF outcome \in {"pure", "ctx", "ph"} THEN "ok"
    ELSE IF api = "Sign" THEN "error"
    ELSE IF api = "VerifyWithOptions" THEN "panic"
    ELSE \* VerifyBatch: a context error is returned, digest / hash problems make every entry false
         IF outcome = "errCtx" THEN "error" ELSE "allfalse"
=============================================================================
