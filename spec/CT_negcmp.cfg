INIT Init
NEXT Next
CONSTANTS
  KeyLen = 3
  ByteVals = {0, 1}
INVARIANTS CmpEarlyNI
