------------------------------ MODULE MCBarrett ------------------------------
(***************************************************************************)
(* R1 for C19: the reduction scheme of internal/modm (barrettReduce +       *)
(* reduce, modm_64bit.go:63-295): HAC 14.42 with b = 256, k = 32 -          *)
(*   q1 = x div b^(k-1),  q3 = (q1 mu) div b^(k+1),                         *)
(*   r  = (x mod b^(k+1) - (q3 m) mod b^(k+1)) mod b^(k+1),                  *)
(*   then exactly TWO conditional subtractions of m -                       *)
(* checked exhaustively at a scaled size: b = 4, k = 4, every modulus m     *)
(* with the shape of L (leading digit 1: m = b^(k-1) + c), every x below    *)
(* b^(2k).  The invariant is that two conditional subtractions always       *)
(* suffice and give x mod m, including x = q m and x = q m - 1.             *)
(***************************************************************************)
EXTENDS Integers, FiniteSets

CONSTANTS Moduli
Bb == 4
Kk == 4
Pow(e) == Bb ^ e

VARIABLES m, x, pc
Init == m = 0 /\ x = 0 /\ pc = "start"
Next == \/ pc = "start" /\ m' \in Moduli /\ x' = x /\ pc' = "m"
        \/ pc = "m" /\ \E hi \in 0..(Pow(Kk) - 1) : x' = hi * Pow(Kk) /\ m' = m /\ pc' = "hi"
        \/ pc = "hi" /\ \E lo \in 0..(Pow(Kk) - 1) : x' = x + lo /\ m' = m /\ pc' = "x"

Mu == Pow(2 * Kk) \div m
Q1 == x \div Pow(Kk - 1)
Q3 == (Q1 * Mu) \div Pow(Kk + 1)
R1 == x % Pow(Kk + 1)
R2 == (Q3 * m) % Pow(Kk + 1)
R  == (R1 - R2) % Pow(Kk + 1)
CondSub(r) == IF r >= m THEN r - m ELSE r

ShapeOfL == m > Pow(Kk - 1) /\ m < 2 * Pow(Kk - 1)
QuotientEstimate == pc = "x" => (x \div m) - Q3 \in 0..2          \* HAC: q3 <= q <= q3 + 2
TwoSubtractionsSuffice == pc = "x" => CondSub(CondSub(R)) = x % m
Canonical == pc = "x" => CondSub(CondSub(R)) < m
=============================================================================
