INIT Init
NEXT Next
CONSTANTS Moduli = {65, 66, 67, 68, 69, 70, 71, 72, 73, 74, 75, 76, 77, 78, 79, 80, 81, 82, 83, 84, 85, 86, 87, 88, 89, 90, 91, 92, 93, 94, 95, 96, 97, 98, 99, 100, 101, 102, 103, 104, 105, 106, 107, 108, 109, 110, 111, 112, 113, 114, 115, 116, 117, 118, 119, 120, 121, 122, 123, 124, 125, 126, 127}
INVARIANTS QuotientEstimate TwoSubtractionsSuffice Canonical
CHECK_DEADLOCK FALSE
