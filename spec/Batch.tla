-------------------------------- MODULE Batch --------------------------------
(***************************************************************************)
(* VerifyBatch (batch_verify.go:278-463) as a state machine, one action    *)
(* per code block, emitting the same events as the `verif` hooks at the    *)
(* same linearization points.  Used                                        *)
(*   - by MCBatch with scaled constants (MinBatch=2, MaxBatch=3) for       *)
(*     exhaustive model checking of C06 / C17 at the design level, and     *)
(*   - by TraceBatch with the real constants (4, 64) to validate hook      *)
(*     traces recorded from the real code.                                 *)
(*                                                                         *)
(* An entry is an abstract record                                          *)
(*   sigLenOk  len(sig) = 64                                               *)
(*   sMin      S < L                          (meaningful iff sigLenOk)    *)
(*   keyLenOk  len(key) = 32                                               *)
(*   hashOk    checkHash accepts (digest length / hash selector)           *)
(*   decA, decR   key / R decode                                           *)
(*   smallA, smallR   isSmallOrderVartime (true for undecodable strings)   *)
(*   eqRed     the entry's own cofactored equation holds with S mod L      *)
(* The equation result of a chunk is supplied by the operator parameter    *)
(* ChunkEquation (abstract: all entries satisfy eqRed; exact: the linear   *)
(* combination with the logged 128-bit randomisers).                       *)
(***************************************************************************)
EXTENDS Integers, Sequences

CONSTANTS MinBatch, MaxBatch,
          ChunkEquation(_, _, _)    \* (entries, offset, batchSize) -> BOOLEAN

\* single verification of an entry under the same options (C06's reference)
Single(e, zip) ==
    /\ e.sigLenOk /\ e.keyLenOk /\ e.hashOk
    /\ e.sMin
    /\ e.decA /\ e.decR
    /\ zip \/ (~e.smallA /\ ~e.smallR)
    /\ e.eqRed

VARIABLES
    entries,   \* the batch (sequence of entry records); constant during a call
    zip,       \* ZIP-215 mode
    entropyOk, \* sequence of BOOLEAN: does the entropy read of chunk c succeed
    pc, num, offset, valid, ret, batchOk, chunk,
    evs,       \* events emitted so far (the hook trace)
    result     \* "none" | [ok, valid, err]

bvars == <<entries, zip, entropyOk, pc, num, offset, valid, ret, batchOk, chunk, evs, result>>

N == Len(entries)

Ev(name, a, b) == <<name, a, b>>

Min2(a, b) == IF a <= b THEN a ELSE b

\* the function f on 1..n as an explicit tuple (TLC would otherwise keep next-state values as
\* unevaluated function expressions and re-evaluate them on every access)
Tup(f, n) == SubSeq(f, 1, n)
BatchSize == Min2(num, MaxBatch)
At(i) == entries[offset + i + 1]          \* i = 0-based index inside the chunk

BInit(es, z, ent) ==
    /\ entries = es /\ zip = z /\ entropyOk = ent
    /\ pc = "loop" /\ num = Len(es) /\ offset = 0
    /\ valid = Tup([i \in 1..Len(es) |-> TRUE], Len(es))
    /\ ret = {} /\ batchOk = TRUE /\ chunk = 0
    /\ evs = << >> /\ result = "none"

Keep(vs) == UNCHANGED vs

\* batch_verify.go:314  loop head
LoopHead ==
    /\ pc = "loop"
    /\ IF num >= MinBatch THEN pc' = "chunk_begin" ELSE pc' = "remainder"
    /\ UNCHANGED <<entries, zip, entropyOk, num, offset, valid, ret, batchOk, chunk, evs, result>>

\* :315-334  batchSize, batchOk := true, entropy
ChunkBegin ==
    /\ pc = "chunk_begin"
    /\ chunk' = chunk + 1
    /\ batchOk' = TRUE
    /\ evs' = Append(evs, Ev("ChunkBegin", offset, BatchSize))
    /\ IF entropyOk[chunk + 1]
       THEN pc' = "scalar_loop" /\ result' = result
       ELSE pc' = "returned" /\ result' = [ok |-> FALSE, valid |-> << >>, err |-> "entropy"]
    /\ UNCHANGED <<entries, zip, entropyOk, num, offset, valid, ret>>

\* first index in 0..bs-1 satisfying Bad, or bs
RECURSIVE FirstBad(_, _, _)
FirstBad(Bad(_), i, bs) == IF i >= bs THEN bs ELSE IF Bad(i) THEN i ELSE FirstBad(Bad, i + 1, bs)

\* :337-358  signature length (failBatch + break) and S < L (mark, no fallback)
ScalarLoop ==
    /\ pc = "scalar_loop"
    /\ LET bs     == BatchSize
           stop   == FirstBad(LAMBDA i : ~At(i).sigLenOk, 0, bs)
           marked == {i \in 0..(stop - 1) : ~At(i).sMin}
           RECURSIVE MarkEvs(_)
           MarkEvs(i) == IF i >= stop THEN << >>
                         ELSE (IF i \in marked THEN <<Ev("Marked", offset + i, 0)>> ELSE << >>) \o MarkEvs(i + 1)
       IN  /\ valid' = Tup([j \in 1..N |-> IF (j - 1 - offset) \in marked \/ (stop < bs /\ j - 1 - offset = stop) THEN FALSE ELSE valid[j]], N)
           /\ ret' = IF marked # {} \/ stop < bs THEN ret \cup {2} ELSE ret
           /\ batchOk' = (stop = bs)
           /\ evs' = evs \o MarkEvs(0) \o (IF stop < bs THEN <<Ev("FailBatch", offset + stop, 0)>> ELSE << >>)
           /\ pc' = IF stop = bs THEN "key_loop" ELSE "fallback"
    /\ UNCHANGED <<entries, zip, entropyOk, num, offset, chunk, result>>

FailAt(stop) ==
    /\ valid' = [valid EXCEPT ![offset + stop + 1] = FALSE]
    /\ ret' = ret \cup {2}
    /\ batchOk' = FALSE
    /\ evs' = Append(evs, Ev("FailBatch", offset + stop, 0))
    /\ pc' = "fallback"

\* :365-397  key length, small-order key, checkHash, hash
KeyLoop ==
    /\ pc = "key_loop"
    /\ LET bs   == BatchSize
           stop == FirstBad(LAMBDA i : ~At(i).keyLenOk \/ (~zip /\ At(i).smallA) \/ ~At(i).hashOk, 0, bs)
       IN  IF stop < bs THEN FailAt(stop)
           ELSE pc' = "point_loop" /\ UNCHANGED <<valid, ret, batchOk, evs>>
    /\ UNCHANGED <<entries, zip, entropyOk, num, offset, chunk, result>>

\* :401-418  decode A, decode R, small-order R
PointLoop ==
    /\ pc = "point_loop"
    /\ LET bs   == BatchSize
           stop == FirstBad(LAMBDA i : ~At(i).decA \/ ~At(i).decR \/ (~zip /\ At(i).smallR), 0, bs)
       IN  IF stop < bs THEN FailAt(stop)
           ELSE pc' = "equation" /\ UNCHANGED <<valid, ret, batchOk, evs>>
    /\ UNCHANGED <<entries, zip, entropyOk, num, offset, chunk, result>>

\* :420-427  multi-scalar multiplication and cofactored identity test
Equation ==
    /\ pc = "equation"
    /\ LET r == ChunkEquation(entries, offset, BatchSize)
       IN  /\ batchOk' = r
           /\ evs' = Append(evs, Ev("Equation", IF r THEN 1 ELSE 0, 0))
           /\ pc' = IF r THEN "chunk_end" ELSE "fallback"
    /\ UNCHANGED <<entries, zip, entropyOk, num, offset, valid, ret, chunk, result>>

\* :431-448  per-signature fallback (entries already marked invalid are not re-verified)
Fallback ==
    /\ pc = "fallback"
    /\ LET bs == BatchSize
           nv == Tup([j \in 1..N |-> IF j - 1 >= offset /\ j - 1 < offset + bs /\ valid[j]
                                     THEN Single(entries[j], zip) ELSE valid[j]], N)
           RECURSIVE One(_)
           One(i) == IF i >= bs THEN << >>
                     ELSE <<Ev("FallbackOne", offset + i, IF nv[offset + i + 1] THEN 1 ELSE 0)>> \o One(i + 1)
       IN  /\ valid' = nv
           /\ ret' = IF \E i \in 0..(bs - 1) : ~nv[offset + i + 1] THEN ret \cup {1} ELSE ret
           /\ evs' = evs \o <<Ev("Fallback", offset, bs)>> \o One(0)
           /\ pc' = "chunk_end"
    /\ UNCHANGED <<entries, zip, entropyOk, num, offset, batchOk, chunk, result>>

\* :450-451
ChunkEnd ==
    /\ pc = "chunk_end"
    /\ evs' = Append(evs, Ev("ChunkEnd", offset, BatchSize))
    /\ offset' = offset + BatchSize
    /\ num' = num - BatchSize
    /\ pc' = "loop"
    /\ UNCHANGED <<entries, zip, entropyOk, valid, ret, batchOk, chunk, result>>

\* :454-462  remainder loop and return
Remainder ==
    /\ pc = "remainder"
    /\ LET nv == Tup([j \in 1..N |-> IF j - 1 >= offset THEN Single(entries[j], zip) ELSE valid[j]], N)
           RECURSIVE One(_)
           One(i) == IF i >= num THEN << >>
                     ELSE <<Ev("Remainder", offset + i, IF nv[offset + i + 1] THEN 1 ELSE 0)>> \o One(i + 1)
           nr == IF \E i \in 0..(num - 1) : ~nv[offset + i + 1] THEN ret \cup {1} ELSE ret
       IN  /\ valid' = nv
           /\ ret' = nr
           /\ evs' = evs \o One(0)
           /\ result' = [ok |-> (nr = {}), valid |-> nv, err |-> "none"]
           /\ pc' = "returned"
    /\ UNCHANGED <<entries, zip, entropyOk, num, offset, batchOk, chunk>>

BNext == LoopHead \/ ChunkBegin \/ ScalarLoop \/ KeyLoop \/ PointLoop \/ Equation \/ Fallback \/ ChunkEnd \/ Remainder

(***************************************************************************)
(* Properties                                                              *)
(***************************************************************************)
Returned == pc = "returned" /\ result.err = "none"

\* C06: per-entry result = single verification; summary = conjunction; one element per entry
PerEntryExact == Returned => /\ Len(result.valid) = N
                             /\ \A i \in 1..N : result.valid[i] = Single(entries[i], zip)
SummaryIsConjunction == Returned => (result.ok = \A i \in 1..N : result.valid[i])

\* no index outside the batch is ever touched
IndicesInRange == /\ offset >= 0 /\ num >= 0 /\ offset + num = N
                  /\ \A k \in 1..Len(evs) : evs[k][1] \in {"FailBatch", "Marked", "FallbackOne", "Remainder"} => evs[k][2] \in 0..(N - 1)

\* C17: a chunk falls back only if it holds an entry that is bad for a reason other than
\* "S >= L but otherwise fine" (those are marked without forcing the fallback)
OnlyHighS(e, z) == ~e.sMin /\ Single([e EXCEPT !.sMin = TRUE], z)
FallbackJustified ==
    \A k \in 1..Len(evs) : evs[k][1] = "Fallback" =>
        \E j \in (evs[k][2] + 1)..(evs[k][2] + evs[k][3]) :
            ~Single(entries[j], zip) /\ ~OnlyHighS(entries[j], zip)

\* C17 (converse): an all-valid chunk is decided by the equation
ValidChunksUseEquation ==
    Returned => \A k \in 1..Len(evs) : evs[k][1] = "ChunkBegin" =>
        ((\A j \in (evs[k][2] + 1)..(evs[k][2] + evs[k][3]) : Single(entries[j], zip))
            => \E m \in (k + 1)..Len(evs) : evs[m] = Ev("Equation", 1, 0) /\ \A q \in (k + 1)..m : evs[q][1] # "Fallback")
=============================================================================
