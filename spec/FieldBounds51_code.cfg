INIT Init
NEXT Next
CONSTANTS Variant = "code"
INVARIANTS NoOverflow
CHECK_DEADLOCK FALSE
