SPECIFICATION Spec
CONSTANTS
  BigSet5 = {0, 1, 2, 7, 8, 64, 100, 255}
  SmallSet5 = {0, 1, 3, 7}
  BigSet7 = {1, 8, 77, 255}
  SmallSet7 = {0, 1, 6}
INVARIANTS SumPreserved TruncExact HeapOrdered HeapIsPermutation ResultExact
CHECK_DEADLOCK FALSE
