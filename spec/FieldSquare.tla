----------------------------- MODULE FieldSquare -----------------------------
(***************************************************************************)
(* R1 for C18: the squaring routines, term by term.  FieldLimbs and        *)
(* FieldLimbs32 model Square by the mathematical column sums; the code     *)
(* uses hand-scheduled term lists that do not generalise to fewer limbs,   *)
(* so they are transcribed here at the REAL number of limbs (5 and 10)     *)
(* with scaled limb widths and checked by TLC on EVERY reduced operand and *)
(* on the unreduced classes built from it:                                 *)
(*   Sq64      curve25519_donna_64bit.go Square: d0 = 2 r0, d1 = 2 r1,     *)
(*             d2 = 38 r2, d419 = 19 r4, d4 = 38 r4; Mul's sequential      *)
(*             carry chain;                                                *)
(*   SqT64     SquareTimes (same terms, but a DIFFERENT carry scheme: all  *)
(*             five carries are taken in parallel from the unreduced       *)
(*             columns and added to the masked neighbours, then a second,  *)
(*             sequential pass; the top carries times 19 go to limb 0);    *)
(*             one and two iterations (the output of one feeds the next);  *)
(*   Sq32      curve25519_donna_32bit.go Square = SquareTimes body: the    *)
(*             in-place doubling schedule r0 *= 2 .. r3 *= 2, d6..d9, the  *)
(*             halving r2/2, Mul's carry chain.                            *)
(* Width 3 bits for the five limbs (p = 2^15 - 3), 2 / 1 bits alternating  *)
(* for the ten limbs (p = 2^15 - 3).  Properties: exact residue of x^2,    *)
(* limbs back in the reduced class (masked; the one limb that takes the    *)
(* last carry by a bounded excess), iterating is exact.                    *)
(***************************************************************************)
EXTENDS Integers, Sequences

CONSTANTS C, Layout,     \* "f51" | "f32"
          Variant       \* "code", or a control: "nohalve" (32-bit: d9 * r2 with the doubled r2), "d2" (64-bit: d2 = 19 r2 for 38 r2)

\* ---------------- 5 limbs of W bits ----------------
W == 3
Mask5 == (2 ^ W) - 1
P5 == (2 ^ (5 * W)) - C
Val5(a) == a[1] + a[2] * (2 ^ W) + a[3] * (2 ^ (2 * W)) + a[4] * (2 ^ (3 * W)) + a[5] * (2 ^ (4 * W))

Cols64(r) ==
    LET r0 == r[1]  r1 == r[2]  r2 == r[3]  r3 == r[4]  r4 == r[5]
        d0 == r0 * 2   d1 == r1 * 2   d2 == (IF Variant = "d2" THEN r2 * C ELSE r2 * 2 * C)   d419 == r4 * C   d4 == d419 * 2
    IN  << r0 * r0 + d4 * r1 + d2 * r3,
           d0 * r1 + d4 * r2 + r3 * (r3 * C),
           d0 * r2 + r1 * r1 + d4 * r3,
           d0 * r3 + d1 * r2 + r4 * d419,
           d0 * r4 + d1 * r3 + r2 * r2 >>

\* Square: the carry chain of Mul
Sq64(r) ==
    LET t == Cols64(r)
        r0a == t[1] % (2 ^ W)                      c0 == t[1] \div (2 ^ W)
        t1 == t[2] + c0   r1a == t1 % (2 ^ W)      c1 == t1 \div (2 ^ W)
        t2 == t[3] + c1   r2a == t2 % (2 ^ W)      c2 == t2 \div (2 ^ W)
        t3 == t[4] + c2   r3a == t3 % (2 ^ W)      c3 == t3 \div (2 ^ W)
        t4 == t[5] + c3   r4a == t4 % (2 ^ W)      c4 == t4 \div (2 ^ W)
        r0b == r0a + c4 * C
    IN  << r0b % (2 ^ W), r1a + (r0b \div (2 ^ W)), r2a, r3a, r4a >>

\* SquareTimes, one iteration: parallel carries, then a sequential pass
SqT64(r) ==
    LET t == Cols64(r)
        r0a == (t[1] % (2 ^ W)) + (t[5] \div (2 ^ W)) * C
        r1a == (t[2] % (2 ^ W)) + (t[1] \div (2 ^ W))
        r2a == (t[3] % (2 ^ W)) + (t[2] \div (2 ^ W))
        r3a == (t[4] % (2 ^ W)) + (t[3] \div (2 ^ W))
        r4a == (t[5] % (2 ^ W)) + (t[4] \div (2 ^ W))
        c0 == r0a \div (2 ^ W)
        r1b == r1a + c0     c1 == r1b \div (2 ^ W)
        r2b == r2a + c1     c2 == r2b \div (2 ^ W)
        r3b == r3a + c2     c3 == r3b \div (2 ^ W)
        r4b == r4a + c3     c4 == r4b \div (2 ^ W)
    IN  << (r0a % (2 ^ W)) + c4 * C, r1b % (2 ^ W), r2b % (2 ^ W), r3b % (2 ^ W), r4b % (2 ^ W) >>

\* ---------------- 10 limbs of 2 / 1 bits ----------------
Wd(i) == IF i % 2 = 1 THEN 1 ELSE 2                     \* 0-based
Pos(i) == (i \div 2) * 3 + (IF i % 2 = 1 THEN 2 ELSE 0)
P10 == (2 ^ 15) - C
RECURSIVE Val10Rec(_, _)
Val10Rec(a, i) == IF i >= 10 THEN 0 ELSE a[i + 1] * (2 ^ Pos(i)) + Val10Rec(a, i + 1)
Val10(a) == Val10Rec(a, 0)

Cols32(x) ==
    LET X0 == x[1] X1 == x[2] X2 == x[3] X3 == x[4] X4 == x[5] X5 == x[6] X6 == x[7] X7 == x[8] X8 == x[9] X9 == x[10]
        D0 == X0 * 2   D1 == X1 * 2   D2 == X2 * 2   D3 == X3 * 2          \* r0 *= 2 .. r3 *= 2 (in place)
        d6 == X6 * C   d7 == X7 * 2 * C   d8 == X8 * C   d9 == X9 * 2 * C
    IN  << X0 * X0
             + d9 * D1 + d8 * D2 + d7 * D3 + d6 * (X4 * 2) + X5 * (X5 * 2 * C),
           D0 * X1
             + d9 * (IF Variant = "nohalve" THEN D2 ELSE D2 \div 2) + d8 * D3 + d7 * X4 + d6 * (X5 * 2),
           D0 * X2 + X1 * (X1 * 2)
             + d9 * D3 + d8 * (X4 * 2) + d7 * (X5 * 2) + d6 * X6,
           D0 * X3 + D1 * X2
             + d9 * X4 + d8 * (X5 * 2) + d7 * X6,
           D0 * X4 + D1 * (X3 * 2) + X2 * X2
             + d9 * (X5 * 2) + d8 * (X6 * 2) + d7 * X7,
           D0 * X5 + D1 * X4 + D2 * X3
             + d9 * X6 + d8 * (X7 * 2),
           D0 * X6 + D1 * (X5 * 2) + D2 * X4 + X3 * (X3 * 2)
             + d9 * (X7 * 2) + d8 * X8,
           D0 * X7 + D1 * X6 + D2 * X5 + D3 * X4
             + d9 * X8,
           D0 * X8 + D1 * (X7 * 2) + D2 * X6 + D3 * (X5 * 2) + X4 * X4
             + d9 * X9,
           D0 * X9 + D1 * X8 + D2 * X7 + D3 * X6 + X4 * (X5 * 2) >>

RECURSIVE Chain32(_, _, _, _)
Chain32(m, i, c, acc) ==
    IF i >= 10 THEN <<acc, c>>
    ELSE LET v == m[i + 1] + c IN Chain32(m, i + 1, v \div (2 ^ Wd(i)), Append(acc, v % (2 ^ Wd(i))))
Sq32(x) ==
    LET ch == Chain32(Cols32(x), 0, 0, << >>)
        r  == ch[1]
        m0 == r[1] + ch[2] * C
    IN  [k \in 1..10 |-> IF k = 1 THEN m0 % 4 ELSE IF k = 2 THEN r[2] + (m0 \div 4) ELSE r[k]]

\* ---------------- exploration ----------------
VARIABLES x, pc
Red5  == [1..5 -> 0..Mask5]
Red10 == {v \in [1..10 -> 0..3] : \A k \in 1..10 : v[k] <= (2 ^ Wd(k - 1)) - 1}
Init == x = << >> /\ pc = "start"
Next == pc = "start" /\ pc' = "x" /\ x' \in (IF Layout = "f51" THEN Red5 ELSE Red10)

Rev5(a) == [k \in 1..5 |-> a[6 - k]]
Rev10(a) == [k \in 1..10 |-> a[IF k % 2 = 1 THEN 10 - k ELSE 12 - k]]      \* even limbs among themselves, odd limbs among themselves
TwoP5(k) == IF k = 1 THEN 2 * ((2 ^ W) - C) ELSE 2 * Mask5

\* operand classes: the reduced x, x + x' (Add), 2p + x - x' (Sub, 5x51: no carry), with x' = x reversed
Ops5 == << x, [k \in 1..5 |-> x[k] + Rev5(x)[k]], [k \in 1..5 |-> x[k] + TwoP5(k) - Rev5(x)[k]] >>
Ops10 == << x, [k \in 1..10 |-> x[k] + Rev10(x)[k]] >>

Red5Out(r, slack0, slack1) == /\ \A k \in 3..5 : r[k] >= 0 /\ r[k] <= Mask5
                              /\ r[1] >= 0 /\ r[1] <= Mask5 + slack0 /\ r[2] >= 0 /\ r[2] <= Mask5 + slack1
Sq5Ok(o) ==
    LET want == ((Val5(o) % P5) * (Val5(o) % P5)) % P5
        a == Sq64(o)   b == SqT64(o)   bb == SqT64(b)   ab == SqT64(a)
    IN  /\ Val5(a) % P5 = want /\ Red5Out(a, 0, 64)                 \* Square: limb 0 masked, limb 1 takes the last carry
        /\ Val5(b) % P5 = want /\ Red5Out(b, 64 * C, 0)             \* SquareTimes: limbs 1..4 masked, limb 0 takes 19 * carry
        /\ Val5(bb) % P5 = (want * want) % P5 /\ Red5Out(bb, 64 * C, 0)      \* iterating is exact
        /\ Val5(ab) % P5 = (want * want) % P5
Square64Exact == (pc = "x" /\ Layout = "f51") => \A i \in 1..3 : Sq5Ok(Ops5[i])

Sq10Ok(o) ==
    LET want == ((Val10(o) % P10) * (Val10(o) % P10)) % P10
        a == Sq32(o)   aa == Sq32(a)
    IN  /\ Val10(a) % P10 = want
        /\ \A k \in 1..10 : a[k] >= 0 /\ (k # 2 => a[k] <= (2 ^ Wd(k - 1)) - 1)
        /\ Val10(aa) % P10 = (want * want) % P10
Square32Exact == (pc = "x" /\ Layout = "f32") => \A i \in 1..2 : Sq10Ok(Ops10[i])
=============================================================================
