------------------------------ MODULE MCRecode ------------------------------
(* R1 for C19/C16: the recodings represent exactly their input, digits in range, for EVERY scaled scalar. *)
EXTENDS Recode, TLC
CONSTANTS ND, NBits
VARIABLES v
Init == v \in 0..((2 ^ NBits) - 1)
Next == UNCHANGED v
\* radix 16: inputs below 16^ND / 2 (the callers' "bit 255 clear")
W4 == v < (16 ^ ND) \div 2 => Window4Ok(Window4(v, ND), v)
\* sliding windows 5 and 7 on inputs with the top 3 bits clear (reduced scalars: 253 of 256 bits)
S5 == v < 2 ^ (NBits - 3) => SlidingOk(Sliding(v, NBits, 5), v, 5)
S7 == v < 2 ^ (NBits - 3) => SlidingOk(Sliding(v, NBits, 7), v, 7)
S3 == v < 2 ^ (NBits - 3) => SlidingOk(Sliding(v, NBits, 3), v, 3)
=============================================================================
