// Package refmodel is the projection between bytes and the abstract coordinates
// used by the TLA+ specification (points as [k]B + [t]T8, field elements and
// scalars as integers).  It is written with math/big only and shares no code
// with the library under test.
package refmodel

import (
	"math/big"
)

var (
	P      = new(big.Int).Sub(new(big.Int).Lsh(big.NewInt(1), 255), big.NewInt(19))
	L, _   = new(big.Int).SetString("7237005577332262213973186563042994240857116359379907606001950938285454250989", 10)
	D      *big.Int
	SqrtM1 *big.Int
	B      Point
	T8     Point    // generator of the 8-torsion subgroup (same as spec/Consts25519.tla)
	Tors   [8]Point // Tors[t] = [t]T8
	one    = big.NewInt(1)
	two    = big.NewInt(2)
)

func mod(x *big.Int) *big.Int { return x.Mod(x, P) }

func Fadd(a, b *big.Int) *big.Int { return mod(new(big.Int).Add(a, b)) }
func Fsub(a, b *big.Int) *big.Int { return mod(new(big.Int).Sub(a, b)) }
func Fmul(a, b *big.Int) *big.Int { return mod(new(big.Int).Mul(a, b)) }
func Fneg(a *big.Int) *big.Int    { return mod(new(big.Int).Neg(a)) }
func Finv(a *big.Int) *big.Int    { return new(big.Int).Exp(a, new(big.Int).Sub(P, two), P) }

// IsSquare reports whether a is a square mod p (0 counts as a square).
func IsSquare(a *big.Int) bool {
	a = new(big.Int).Mod(a, P)
	if a.Sign() == 0 {
		return true
	}
	e := new(big.Int).Rsh(new(big.Int).Sub(P, one), 1)
	return new(big.Int).Exp(a, e, P).Cmp(one) == 0
}

// Sqrt returns a square root of a mod p (ok=false if none).
func Sqrt(a *big.Int) (*big.Int, bool) {
	a = new(big.Int).Mod(a, P)
	e := new(big.Int).Rsh(new(big.Int).Add(P, big.NewInt(3)), 3)
	x := new(big.Int).Exp(a, e, P)
	if Fmul(x, x).Cmp(a) != 0 {
		x = Fmul(x, SqrtM1)
	}
	if Fmul(x, x).Cmp(a) != 0 {
		return nil, false
	}
	return x, true
}

// Point is a curve point in extended coordinates (X:Y:Z:T).
type Point struct{ X, Y, Z, T *big.Int }

func Identity() Point {
	return Point{big.NewInt(0), big.NewInt(1), big.NewInt(1), big.NewInt(0)}
}

func FromAffine(x, y *big.Int) Point {
	return Point{new(big.Int).Set(x), new(big.Int).Set(y), big.NewInt(1), Fmul(x, y)}
}

func (p Point) Affine() (x, y *big.Int) {
	zi := Finv(p.Z)
	return Fmul(p.X, zi), Fmul(p.Y, zi)
}

func (p Point) OnCurve() bool {
	x, y := p.Affine()
	xx, yy := Fmul(x, x), Fmul(y, y)
	lhs := Fsub(yy, xx)
	rhs := Fadd(one, Fmul(D, Fmul(xx, yy)))
	return lhs.Cmp(rhs) == 0
}

// Add is the complete unified addition (add-2008-hwcd-3 with a=-1).
func (p Point) Add(q Point) Point {
	a := Fmul(Fsub(p.Y, p.X), Fsub(q.Y, q.X))
	b := Fmul(Fadd(p.Y, p.X), Fadd(q.Y, q.X))
	c := Fmul(Fmul(p.T, q.T), Fadd(D, D))
	d := Fmul(Fadd(p.Z, p.Z), q.Z)
	e := Fsub(b, a)
	f := Fsub(d, c)
	g := Fadd(d, c)
	h := Fadd(b, a)
	return Point{Fmul(e, f), Fmul(g, h), Fmul(f, g), Fmul(e, h)}
}

func (p Point) Neg() Point {
	return Point{Fneg(p.X), new(big.Int).Set(p.Y), new(big.Int).Set(p.Z), Fneg(p.T)}
}

func (p Point) Sub(q Point) Point { return p.Add(q.Neg()) }

func (p Point) Double() Point { return p.Add(p) }

// Mul returns [k]p for k >= 0 (k is not reduced).
func (p Point) Mul(k *big.Int) Point {
	if k.Sign() < 0 {
		panic("refmodel: negative scalar")
	}
	r := Identity()
	for i := k.BitLen() - 1; i >= 0; i-- {
		r = r.Double()
		if k.Bit(i) == 1 {
			r = r.Add(p)
		}
	}
	return r
}

func (p Point) Equal(q Point) bool {
	// X1 Z2 == X2 Z1 and Y1 Z2 == Y2 Z1
	return Fmul(p.X, q.Z).Cmp(Fmul(q.X, p.Z)) == 0 && Fmul(p.Y, q.Z).Cmp(Fmul(q.Y, p.Z)) == 0
}

func (p Point) IsIdentity() bool { return p.Equal(Identity()) }

// IsSmallOrder reports [8]p == identity.
func (p Point) IsSmallOrder() bool { return p.Double().Double().Double().IsIdentity() }

// LE32 encodes 0 <= n < 2^256 little-endian.
func LE32(n *big.Int) [32]byte {
	var out [32]byte
	b := n.Bytes()
	if len(b) > 32 {
		panic("refmodel: LE32 overflow")
	}
	for i := range b {
		out[len(b)-1-i] = b[i]
	}
	return out
}

// LE encodes n little-endian into size bytes.
func LE(n *big.Int, size int) []byte {
	out := make([]byte, size)
	b := n.Bytes()
	if len(b) > size {
		panic("refmodel: LE overflow")
	}
	for i := range b {
		out[len(b)-1-i] = b[i]
	}
	return out
}

// FromLE decodes a little-endian byte string.
func FromLE(b []byte) *big.Int {
	r := make([]byte, len(b))
	for i := range b {
		r[len(b)-1-i] = b[i]
	}
	return new(big.Int).SetBytes(r)
}

// Encode returns the canonical encoding.
func (p Point) Encode() [32]byte {
	x, y := p.Affine()
	out := LE32(y)
	out[31] |= byte(x.Bit(0)) << 7
	return out
}

// Encodings returns every 32-byte string that the lenient decoding maps to p:
// the canonical one first, then y+p when y < 19, and for x = 0 both sign bits.
func (p Point) Encodings() [][32]byte {
	x, y := p.Affine()
	var ys []*big.Int
	ys = append(ys, y)
	if y.Cmp(big.NewInt(19)) < 0 {
		ys = append(ys, new(big.Int).Add(y, P))
	}
	var out [][32]byte
	for _, yy := range ys {
		e := LE32(yy)
		if x.Sign() == 0 {
			out = append(out, e)
			e2 := e
			e2[31] |= 0x80
			out = append(out, e2)
		} else {
			e[31] |= byte(x.Bit(0)) << 7
			out = append(out, e)
		}
	}
	return out
}

// DecodeInfo describes the lenient decoding of a 32-byte string.
type DecodeInfo struct {
	OK     bool
	Pt     Point
	YRaw   *big.Int // low 255 bits, unreduced
	Y      *big.Int // reduced
	Sign   uint
	U, V   *big.Int // u = y^2-1, v = d y^2+1
	Root   *big.Int // OK: the x chosen; !OK: z with z^2 v = 2u
	Branch int      // 0: candidate root worked, 1: needed sqrt(-1), 2: non-square
}

// Decode applies the lenient rule: y = (low 255 bits) mod p, accepted iff
// (y^2-1)/(d y^2+1) is a square; x has the parity of the top bit (x = 0 either).
func Decode(b []byte) DecodeInfo {
	var c [32]byte
	copy(c[:], b)
	sign := uint(c[31] >> 7)
	c[31] &= 0x7f
	yraw := FromLE(c[:])
	y := new(big.Int).Mod(yraw, P)
	yy := Fmul(y, y)
	u := Fsub(yy, one)
	v := Fadd(Fmul(D, yy), one)
	xx := Fmul(u, Finv(v))
	info := DecodeInfo{YRaw: yraw, Y: y, Sign: sign, U: u, V: v}
	// candidate root as in the implementation: (u v^3) (u v^7)^((p-5)/8)
	v3 := Fmul(Fmul(v, v), v)
	v7 := Fmul(Fmul(v3, v3), v)
	e := new(big.Int).Rsh(new(big.Int).Sub(P, big.NewInt(5)), 3)
	cand := Fmul(Fmul(u, v3), new(big.Int).Exp(Fmul(u, v7), e, P))
	x, ok := Sqrt(xx)
	if !ok {
		info.Branch = 2
		z, ok2 := Sqrt(Fmul(Fadd(u, u), Finv(v)))
		if !ok2 {
			panic("refmodel: neither u/v nor 2u/v is a square")
		}
		info.Root = z
		return info
	}
	if Fmul(Fmul(cand, cand), v).Cmp(u) == 0 {
		info.Branch = 0
	} else {
		info.Branch = 1
	}
	if x.Bit(0) != sign {
		x = Fneg(x)
	}
	info.OK = true
	info.Root = x
	info.Pt = FromAffine(x, y)
	return info
}

var basePow [256]Point // basePow[i] = [2^i]B

// BaseMul returns [k]B for 0 <= k < 2^256 using precomputed doublings of B.
func BaseMul(k *big.Int) Point {
	if k.Sign() < 0 || k.BitLen() > 256 {
		panic("refmodel: BaseMul range")
	}
	r := Identity()
	for i := 0; i < k.BitLen(); i++ {
		if k.Bit(i) == 1 {
			r = r.Add(basePow[i])
		}
	}
	return r
}

// FromKT returns [k]B + [t]T8.
func FromKT(k *big.Int, t int) Point {
	return BaseMul(new(big.Int).Mod(k, L)).Add(Tors[((t%8)+8)%8])
}

// TorsionIndex returns t with p == Tors[t], or -1.
func TorsionIndex(p Point) int {
	for t := 0; t < 8; t++ {
		if p.Equal(Tors[t]) {
			return t
		}
	}
	return -1
}

// TorsionPart returns t such that p = [k]B + [t]T8 (computed as [L]p = [L t]T8).
func TorsionPart(p Point) int {
	q := p.Mul(L)
	lm := int(new(big.Int).Mod(L, big.NewInt(8)).Int64())
	for t := 0; t < 8; t++ {
		if q.Equal(Tors[(t*lm)%8]) {
			return t
		}
	}
	panic("refmodel: point not in group")
}

// SmallOrderEncodings returns the complete list of encodings of the eight
// torsion points (14 strings), in a fixed order.
func SmallOrderEncodings() [][32]byte {
	var out [][32]byte
	for t := 0; t < 8; t++ {
		out = append(out, Tors[t].Encodings()...)
	}
	return out
}

func init() {
	D = Fmul(big.NewInt(-121665), Finv(big.NewInt(121666)))
	D.Mod(D, P)
	e := new(big.Int).Rsh(new(big.Int).Sub(P, one), 2)
	SqrtM1 = new(big.Int).Exp(two, e, P)
	by := Fmul(big.NewInt(4), Finv(big.NewInt(5)))
	enc := LE32(by)
	di := Decode(enc[:])
	if !di.OK {
		panic("refmodel: base point")
	}
	B = di.Pt
	// Same deterministic choice as bin/gen_consts.py: smallest y >= 2 that decodes
	// (sign 0) with [L]P of order exactly 8.
	for y := int64(2); ; y++ {
		enc := LE32(big.NewInt(y))
		di := Decode(enc[:])
		if !di.OK {
			continue
		}
		t := di.Pt.Mul(L)
		if !t.Double().Double().IsIdentity() {
			T8 = t
			break
		}
	}
	basePow[0] = B
	for i := 1; i < 256; i++ {
		basePow[i] = basePow[i-1].Double()
	}
	Tors[0] = Identity()
	for t := 1; t < 8; t++ {
		Tors[t] = Tors[t-1].Add(T8)
	}
	if !Tors[7].Add(T8).IsIdentity() || !B.Mul(L).IsIdentity() || !B.OnCurve() || !T8.OnCurve() {
		panic("refmodel: self-check failed")
	}
}
