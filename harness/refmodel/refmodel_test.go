package refmodel

import (
	"bytes"
	stded "crypto/ed25519"
	"crypto/sha512"
	"math/big"
	"testing"

	"golang.org/x/crypto/curve25519"
)

func TestAgainstStdlib(t *testing.T) {
	for i := 0; i < 20; i++ {
		seed := sha512.Sum512([]byte{byte(i)})
		priv := stded.NewKeyFromSeed(seed[:32])
		h := sha512.Sum512(seed[:32])
		a := Clamp(h[:32])
		enc := B.Mul(a).Encode()
		if !bytes.Equal(enc[:], priv[32:]) {
			t.Fatalf("pub mismatch")
		}
		di := Decode(enc[:])
		if !di.OK || !di.Pt.Equal(B.Mul(a)) {
			t.Fatalf("decode")
		}
		x := X25519(seed[:32], seed[32:])
		want, _ := curve25519.X25519(seed[:32], seed[32:])
		if want != nil && !bytes.Equal(x[:], want) {
			t.Fatalf("x25519 mismatch")
		}
	}
	if n := len(SmallOrderEncodings()); n != 14 {
		t.Fatalf("small order encodings: %d", n)
	}
	k := big.NewInt(12345)
	p := FromKT(k, 3)
	if TorsionPart(p) != 3 || p.IsSmallOrder() || !Tors[5].IsSmallOrder() {
		t.Fatalf("torsion")
	}
}
