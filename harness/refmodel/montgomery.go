package refmodel

import "math/big"

// Clamp returns the RFC 7748 clamped scalar as an integer.
func Clamp(s []byte) *big.Int {
	var c [32]byte
	copy(c[:], s)
	c[0] &= 248
	c[31] &= 127
	c[31] |= 64
	return FromLE(c[:])
}

// LadderRaw computes the u-coordinate of [k]u per RFC 7748 section 5 with the
// scalar used as given (no clamping); u is reduced mod p and bit 255 masked by
// the caller.
func LadderRaw(k, u *big.Int) *big.Int {
	a24 := big.NewInt(121665)
	x1 := new(big.Int).Mod(u, P)
	x2, z2 := big.NewInt(1), big.NewInt(0)
	x3, z3 := new(big.Int).Set(x1), big.NewInt(1)
	swap := uint(0)
	for t := 254; t >= 0; t-- {
		kt := k.Bit(t)
		swap ^= kt
		if swap == 1 {
			x2, x3 = x3, x2
			z2, z3 = z3, z2
		}
		swap = kt
		A := Fadd(x2, z2)
		AA := Fmul(A, A)
		Bv := Fsub(x2, z2)
		BB := Fmul(Bv, Bv)
		E := Fsub(AA, BB)
		C := Fadd(x3, z3)
		Dv := Fsub(x3, z3)
		DA := Fmul(Dv, A)
		CB := Fmul(C, Bv)
		t1 := Fadd(DA, CB)
		x3 = Fmul(t1, t1)
		t2 := Fsub(DA, CB)
		z3 = Fmul(x1, Fmul(t2, t2))
		x2 = Fmul(AA, BB)
		z2 = Fmul(E, Fadd(AA, Fmul(a24, E)))
	}
	if swap == 1 {
		x2, x3 = x3, x2
		z2, z3 = z3, z2
	}
	return Fmul(x2, Finv(z2))
}

// X25519 is RFC 7748 X25519(scalar, u): clamp, mask bit 255 of u, ladder.
func X25519(scalar, u []byte) [32]byte {
	var uc [32]byte
	copy(uc[:], u)
	uc[31] &= 0x7f
	return LE32(LadderRaw(Clamp(scalar), FromLE(uc[:])))
}

// EdYToMontU maps an Edwards y to the Montgomery u = (1+y)/(1-y) (0 when y = 1).
func EdYToMontU(y *big.Int) *big.Int {
	den := Fsub(big.NewInt(1), y)
	if den.Sign() == 0 {
		return big.NewInt(0)
	}
	return Fmul(Fadd(big.NewInt(1), y), Finv(den))
}
