module github.com/oasisprotocol/ed25519/verifharness

go 1.21

require (
	github.com/oasisprotocol/ed25519 v0.0.0
	golang.org/x/crypto v0.0.0-20191119213627-4f8c1d86b1ba
)

replace github.com/oasisprotocol/ed25519 => /repo
