// Package hx holds helpers shared by the conformance drivers: the ndjson trace
// writer, byte/JSON conversions, abstract point descriptors and the seeded PRNG.
package hx

import (
	"bufio"
	"crypto/sha512"
	"encoding/json"
	"math/big"
	"math/rand"
	"os"
	"sync"

	"github.com/oasisprotocol/ed25519/verifharness/refmodel"
)

// Ints converts bytes to a JSON-friendly int slice (TLC reads it as a sequence).
func Ints(b []byte) []int {
	out := make([]int, len(b))
	for i, v := range b {
		out[i] = int(v)
	}
	return out
}

// Trace is an ndjson writer.
type Trace struct {
	mu sync.Mutex
	f  *os.File
	w  *bufio.Writer
	n  int
}

func NewTrace(path string) *Trace {
	f, err := os.Create(path)
	if err != nil {
		panic(err)
	}
	t := &Trace{f: f, w: bufio.NewWriterSize(f, 1<<20)}
	allMu.Lock()
	allTraces = append(allTraces, t)
	allMu.Unlock()
	return t
}

var (
	allMu     sync.Mutex
	allTraces []*Trace
)

// FlushAll flushes every open trace (used when a driver has to stop early).
func FlushAll() {
	allMu.Lock()
	defer allMu.Unlock()
	for _, t := range allTraces {
		t.mu.Lock()
		t.w.Flush()
		t.mu.Unlock()
	}
}

// Emit writes one event; it assigns and returns the event id.
func (t *Trace) Emit(ev map[string]interface{}) int {
	t.mu.Lock()
	defer t.mu.Unlock()
	t.n++
	ev["id"] = t.n
	b, err := json.Marshal(ev)
	if err != nil {
		panic(err)
	}
	t.w.Write(b)
	t.w.WriteByte('\n')
	return t.n
}

func (t *Trace) Count() int { return t.n }

func (t *Trace) Close() {
	t.w.Flush()
	t.f.Close()
}

// Rng is the seeded PRNG used for every random choice.
type Rng struct{ *rand.Rand }

func NewRng(seed int64) *Rng { return &Rng{rand.New(rand.NewSource(seed))} }

func (r *Rng) Bytes(n int) []byte {
	b := make([]byte, n)
	r.Read(b)
	return b
}

// Scalar returns a uniformly random nonzero scalar below L.
func (r *Rng) Scalar() *big.Int {
	for {
		k := new(big.Int).Mod(refmodel.FromLE(r.Bytes(40)), refmodel.L)
		if k.Sign() != 0 {
			return k
		}
	}
}

// PT is a 32-byte string together with its abstract coordinates.
type PT struct {
	Bytes [32]byte
	Dec   bool           // decodes under the lenient rule
	Known bool           // discrete logarithm known: point = [K]B + [T]T8
	K     *big.Int       // mod L
	T     int            // 0..7
	Small bool           // [8]P = identity (concrete)
	Pt    refmodel.Point // valid iff Dec
	Kind  string         // free-text class for reports
}

// Desc is the JSON form used in trace events.
func (p PT) Desc() map[string]interface{} {
	k := p.K
	if k == nil {
		k = big.NewInt(0)
	}
	return map[string]interface{}{
		"dec": p.Dec, "known": p.Known, "k": Ints(refmodel.LE(k, 32)), "t": p.T,
		"small": p.Small, "kind": p.Kind, "bytes": Ints(p.Bytes[:]),
	}
}

// KT builds [k]B + [t]T8 in its enc-th accepted encoding (0 = canonical).
func KT(k *big.Int, t int, enc int, kind string) PT {
	k = new(big.Int).Mod(k, refmodel.L)
	pt := refmodel.FromKT(k, t)
	encs := pt.Encodings()
	e := encs[enc%len(encs)]
	return PT{Bytes: e, Dec: true, Known: true, K: k, T: t, Small: k.Sign() == 0, Pt: pt, Kind: kind}
}

// NumEncodings returns how many strings decode to [k]B + [t]T8.
func NumEncodings(k *big.Int, t int) int { return len(refmodel.FromKT(k, t).Encodings()) }

// FromBytes classifies an arbitrary 32-byte string (unknown discrete log unless
// it is one of the torsion points).
func FromBytes(b []byte, kind string) PT {
	var p PT
	copy(p.Bytes[:], b)
	p.Kind = kind
	di := refmodel.Decode(b)
	p.Dec = di.OK
	p.Known = !di.OK // an undecodable string needs no coordinates
	p.K = big.NewInt(0)
	if di.OK {
		p.Pt = di.Pt
		p.Small = di.Pt.IsSmallOrder()
		if p.Small {
			p.Known = true
			p.T = refmodel.TorsionIndex(di.Pt)
		}
	}
	return p
}

// Undecodable returns a random string that does not decode.
func Undecodable(r *Rng) PT {
	for {
		b := r.Bytes(32)
		if !refmodel.Decode(b).OK {
			return FromBytes(b, "undecodable")
		}
	}
}

// RandomDecodable returns a random decodable string with unknown discrete log.
func RandomDecodable(r *Rng) PT {
	for {
		b := r.Bytes(32)
		if refmodel.Decode(b).OK {
			return FromBytes(b, "random-decodable")
		}
	}
}

// Dom2 returns the RFC 8032 dom2 prefix for the variant ("" for pure).
func Dom2(variant string, ctx []byte) []byte {
	if variant == "pure" {
		return nil
	}
	flag := byte(0)
	if variant == "ph" {
		flag = 1
	}
	out := []byte("SigEd25519 no Ed25519 collisions")
	out = append(out, flag, byte(len(ctx)))
	return append(out, ctx...)
}

// HRAM is SHA-512(dom2 || R || A || M) computed over the bytes as supplied.
func HRAM(variant string, ctx, r, a, m []byte) [64]byte {
	h := sha512.New()
	h.Write(Dom2(variant, ctx))
	h.Write(r)
	h.Write(a)
	h.Write(m)
	var out [64]byte
	h.Sum(out[:0])
	return out
}

// Eq8 evaluates [8]([S]B - [h]A - R) == identity concretely (used only when a
// discrete log is unknown).
func Eq8(S *big.Int, h *big.Int, A, R refmodel.Point) bool {
	sb := refmodel.BaseMul(new(big.Int).Mod(S, refmodel.L))
	ha := A.Mul(new(big.Int).Mod(h, refmodel.L))
	return sb.Sub(ha).Sub(R).IsSmallOrder()
}
