// rarehunt searches, with the standard library only (crypto/ed25519, crypto/sha512, math/big), for signing inputs
// whose INTERNAL values sit on limb boundaries that random inputs reach with probability about 2^-28:
//
//	kind "smallS":     the signature scalar S is below 2^224, i.e. r + h*a lands in [L, L + 2^224): the sum's top
//	                   limb equals L's top limb in both scalar layouts (the boundary of the final conditional subtraction)
//	kind "shortNonce": the nonce r = SHA-512(prefix || M) mod L is below 2^224 (top limb of the scalar is zero: the
//	                   fixed-base multiplication runs on a scalar with empty top windows)
//
// Output: one JSON line per hit {"kind","seed","msg"}.  The hits are stored in cmd/driver/rare.go and replayed through
// the ordinary sign events (TraceSign decides them; nothing about the expected signature is stored).
package main

import (
	"crypto/ed25519"
	"crypto/sha512"
	"encoding/binary"
	"encoding/hex"
	"flag"
	"fmt"
	"math/big"
	"runtime"
	"sync"
	"sync/atomic"
)

func main() {
	kind := flag.String("kind", "smallS", "smallS | shortNonce")
	want := flag.Int("n", 2, "hits wanted")
	seedTag := flag.Int("seed", 1, "which fixed key")
	flag.Parse()
	var seed [32]byte
	for i := range seed {
		seed[i] = byte(*seedTag*37 + i*11)
	}
	priv := ed25519.NewKeyFromSeed(seed[:])
	dig := sha512.Sum512(seed[:])
	prefix := dig[32:]
	L, _ := new(big.Int).SetString("7237005577332262213973186563042994240857116359379907606001950938285454250989", 10)
	var hits int32
	var wg sync.WaitGroup
	var mu sync.Mutex
	for w := 0; w < runtime.NumCPU(); w++ {
		wg.Add(1)
		go func(w int) {
			defer wg.Done()
			msg := make([]byte, 16)
			binary.LittleEndian.PutUint32(msg[12:], uint32(w))
			le := make([]byte, 64)
			for ctr := uint64(0); atomic.LoadInt32(&hits) < int32(*want); ctr++ {
				binary.LittleEndian.PutUint64(msg, ctr)
				ok := false
				switch *kind {
				case "smallS":
					sig := ed25519.Sign(priv, msg)
					ok = sig[60] == 0 && sig[61] == 0 && sig[62] == 0 && sig[63] == 0
				case "shortNonce":
					h := sha512.New()
					h.Write(prefix)
					h.Write(msg)
					d := h.Sum(nil)
					// cheap pre-filter is impossible (reduction mod L mixes everything): reduce
					for i := 0; i < 64; i++ {
						le[i] = d[63-i]
					}
					r := new(big.Int).SetBytes(le)
					r.Mod(r, L)
					ok = r.BitLen() <= 224
				}
				if ok {
					mu.Lock()
					if atomic.AddInt32(&hits, 1) <= int32(*want) {
						fmt.Printf("{\"kind\":%q,\"seed\":%q,\"msg\":%q}\n", *kind, hex.EncodeToString(seed[:]), hex.EncodeToString(msg))
					}
					mu.Unlock()
				}
			}
		}(w)
	}
	wg.Wait()
}
