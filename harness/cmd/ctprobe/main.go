// Command ctprobe runs ONE secret-handling operation between two marker functions so that an
// instruction/memory trace recorder (valgrind --tool=lackey) can cut out exactly the library's work.
//
//	ctprobe <op> <secret-hex> [<public-hex>]
//
// Everything that depends on public data only (message, context, key derivation for the
// operations whose secret is the private key) is prepared outside the markers.
package main

import (
	"bytes"
	"crypto"
	"encoding/hex"
	"fmt"
	"os"
	"runtime"

	"github.com/oasisprotocol/ed25519"
	"github.com/oasisprotocol/ed25519/extra/x25519"
)

var markSink int

// Heap-profile sampling draws random sample points and would inject runtime work at random places.
var _ = func() int { runtime.MemProfileRate = 0; return 0 }()

//go:noinline
func verifMarkBegin() { markSink++ }

//go:noinline
func verifMarkEnd() { markSink += 2 }

var sink []byte
var sinkBool bool

func main() {
	if len(os.Args) < 3 {
		fmt.Println("usage: ctprobe <op> <secret-hex> [<public-hex>]")
		os.Exit(2)
	}
	op := os.Args[1]
	secret, err := hex.DecodeString(os.Args[2])
	if err != nil || len(secret) != 32 {
		fmt.Println("bad secret")
		os.Exit(2)
	}
	var public []byte
	if len(os.Args) > 3 {
		public, _ = hex.DecodeString(os.Args[3])
	}
	msg := bytes.Repeat([]byte{0x42}, 77)
	digest := bytes.Repeat([]byte{0x17}, 64)
	switch op {
	case "NewKeyFromSeed":
		verifMarkBegin()
		sink = ed25519.NewKeyFromSeed(secret)
		verifMarkEnd()
	case "GenerateKey":
		rd := bytes.NewReader(secret)
		verifMarkBegin()
		_, k, _ := ed25519.GenerateKey(rd)
		sink = k
		verifMarkEnd()
	case "Sign", "SignCtx", "SignPh", "SignerHash0":
		priv := ed25519.NewKeyFromSeed(secret)
		// the public half is public: signatures made with different seeds differ in it, so a common one is used
		if len(public) == 32 {
			copy(priv[32:], public)
		}
		verifMarkBegin()
		switch op {
		case "Sign":
			sink = ed25519.Sign(priv, msg)
		case "SignCtx":
			sink, _ = priv.Sign(nil, msg, &ed25519.Options{Context: "verif-context"})
		case "SignPh":
			sink, _ = priv.Sign(nil, digest, &ed25519.Options{Hash: crypto.SHA512, Context: "c"})
		case "SignerHash0":
			sink, _ = priv.Sign(nil, msg, crypto.Hash(0))
		}
		verifMarkEnd()
	case "X25519Base":
		verifMarkBegin()
		sink, _ = x25519.X25519(secret, x25519.Basepoint)
		verifMarkEnd()
	case "ScalarBaseMult":
		var in, out [32]byte
		copy(in[:], secret)
		verifMarkBegin()
		x25519.ScalarBaseMult(&out, &in)
		verifMarkEnd()
		sink = out[:]
	case "EdPrivateKeyToX25519":
		priv := ed25519.NewKeyFromSeed(secret)
		verifMarkBegin()
		sink = x25519.EdPrivateKeyToX25519(priv)
		verifMarkEnd()
	case "EqualSame", "EqualDiffFirst", "EqualDiffLast", "EqualDiffMid":
		// two private keys; the secret selects the key material, the op the position of the difference
		a := ed25519.NewKeyFromSeed(secret)
		b := ed25519.PrivateKey(append([]byte{}, a...))
		switch op {
		case "EqualDiffFirst":
			b[0] ^= 1
		case "EqualDiffLast":
			b[31] ^= 0x80
		case "EqualDiffMid":
			b[13] ^= 0x10
		}
		verifMarkBegin()
		sinkBool = a.Equal(b)
		verifMarkEnd()
	default:
		fmt.Println("unknown op")
		os.Exit(2)
	}
	fmt.Printf("done %s %x %v\n", op, len(sink), sinkBool)
}
