// Command ctfilter reads a valgrind-lackey trace (--trace-mem=yes) on stdin, cuts out the window between
// the first execution of the begin marker and the first execution of the end marker, and prints
//
//	records=<n> sha256=<hex> instr=<n> loads=<n> stores=<n>
//
// Addresses of loads and stores are part of the hash: the window is the program-counter AND address trace.
// Heap and goroutine-stack addresses (the Go arena at 0xc000000000 and above) are renamed to
// (2 KiB block in order of first appearance, offset in block): where the runtime happened to place the
// stack is not an observation about the library.  Runtime metadata allocated on demand outside the arena
// (itabs) becomes an opaque token per address.  Static data (tables, globals) keeps absolute addresses.
package main

import (
	"bufio"
	"crypto/sha256"
	"fmt"
	"os"
	"strconv"
	"strings"
)

// allowed reports whether a code address lies in one of the sorted [lo, hi) ranges.
func allowed(r [][2]uint64, a uint64) bool {
	lo, hi := 0, len(r)
	for lo < hi {
		m := (lo + hi) / 2
		if a < r[m][0] {
			hi = m
		} else if a >= r[m][1] {
			lo = m + 1
		} else {
			return true
		}
	}
	return false
}

// ctfilter <begin> <end> <ranges-file> [dump]
//
// The ranges file lists the code of the library, of the packages it applies to data (hashing,
// comparison, copying) and of the probe: instructions outside it - the Go memory manager, scheduler
// and signal machinery, whose activity depends on what else the process did - are not observations
// about the library and are dropped together with their memory accesses.
func main() {
	begin, _ := strconv.ParseUint(os.Args[1], 16, 64)
	end, _ := strconv.ParseUint(os.Args[2], 16, 64)
	var ranges [][2]uint64
	if rf, err := os.Open(os.Args[3]); err == nil {
		rs := bufio.NewScanner(rf)
		for rs.Scan() {
			var a, b uint64
			if n, _ := fmt.Sscanf(rs.Text(), "%x %x", &a, &b); n == 2 {
				ranges = append(ranges, [2]uint64{a, b})
			}
		}
		rf.Close()
	}
	if len(ranges) == 0 {
		fmt.Println("ERROR no code ranges")
		os.Exit(2)
	}
	dump := len(os.Args) > 4
	keep := false
	// address classes (set by the orchestrator from the binary's symbol table): below staticEnd the binary's own
	// segments (absolute addresses are kept); [arenaLo, arenaHi) the Go heap/stack arena (renamed per 2 KiB block);
	// everything else is on-demand runtime metadata (one opaque token per address)
	staticEnd, arenaLo, arenaHi := uint64(0x10000000), uint64(0xc000000000), uint64(0xd000000000)
	if v, err := strconv.ParseUint(os.Getenv("CT_STATIC_END"), 16, 64); err == nil && v > 0 {
		staticEnd = v
	}
	if v, err := strconv.ParseUint(os.Getenv("CT_ARENA_LO"), 16, 64); err == nil && v > 0 {
		arenaLo = v
	}
	if v, err := strconv.ParseUint(os.Getenv("CT_ARENA_HI"), 16, 64); err == nil && v > 0 {
		arenaHi = v
	}
	starts := map[uint64]bool{}
	for _, r := range ranges {
		starts[r[0]] = true
	}
	sc := bufio.NewScanner(os.Stdin)
	sc.Buffer(make([]byte, 1<<20), 1<<24)
	h := sha256.New()
	in := false
	var n, ni, nl, ns int
	done := false
	blocks := map[uint64]int{}
	metas := map[uint64]int{}

	// A goroutine that is asked to yield (sysmon) or whose stack must grow leaves a function from its
	// prologue through runtime.morestack and, when it resumes, executes the prologue AGAIN from the function's
	// first instruction.  When that happens depends on wall-clock time, not on the program.  The records of
	// such an aborted prologue are dropped: a short segment that starts at a function entry, leaves the
	// observed code, and is followed by a re-entry at the same function entry.
	type rec struct {
		kind, rest string
	}
	var seg []rec       // records since the last function entry, not yet committed
	var segStart uint64 // address of that entry (0: no open segment)
	segInstr := 0
	segLeft := false // the segment ended by leaving the observed code
	commit := func() {
		for _, r := range seg {
			n++
			switch r.kind {
			case "I":
				ni++
			case "L":
				nl++
			case "S":
				ns++
			default:
				nl++
				ns++
			}
			h.Write([]byte(r.kind))
			h.Write([]byte(r.rest))
			h.Write([]byte{'\n'})
			if dump {
				fmt.Println(r.kind, r.rest)
			}
		}
		seg, segStart, segInstr, segLeft = seg[:0], 0, 0, false
	}
	for sc.Scan() {
		ln := sc.Text()
		if len(ln) < 4 || (ln[0] != 'I' && ln[0] != ' ') {
			continue
		}
		kind := strings.TrimSpace(ln[:2])
		rest := strings.TrimSpace(ln[2:])
		c := strings.IndexByte(rest, ',')
		if c < 0 {
			continue
		}
		addr, err := strconv.ParseUint(rest[:c], 16, 64)
		if err != nil {
			continue
		}
		if kind == "I" {
			if !in && !done && addr == begin {
				in = true
				continue
			}
			if in && addr == end {
				in = false
				done = true
				continue
			}
		}
		if !in {
			continue
		}
		if kind == "I" {
			was := keep
			keep = allowed(ranges, addr)
			if !keep {
				if was && segStart != 0 {
					segLeft = true
				}
				continue
			}
			if segStart != 0 && segLeft {
				if addr == segStart && segInstr <= 12 {
					seg, segInstr, segLeft = seg[:0], 0, false // aborted prologue: executed again now
				} else {
					commit()
				}
			}
			if starts[addr] {
				if segStart != 0 {
					commit()
				}
				segStart = addr
			}
			if segStart != 0 {
				segInstr++
				if segInstr > 12 {
					seg = append(seg, rec{kind, rest})
					commit()
					continue
				}
			}
		}
		if !keep {
			continue
		}
		if kind != "I" && addr >= arenaLo && addr < arenaHi {
			blk := addr >> 11
			id, ok := blocks[blk]
			if !ok {
				id = len(blocks)
				blocks[blk] = id
			}
			rest = fmt.Sprintf("h%d+%x%s", id, addr&0x7ff, rest[c:])
		} else if kind != "I" && addr >= staticEnd {
			id, ok := metas[addr]
			if !ok {
				id = len(metas)
				metas[addr] = id
			}
			rest = fmt.Sprintf("m%d%s", id, rest[c:])
		}
		seg = append(seg, rec{kind, rest})
		if segStart == 0 {
			commit()
		}
	}
	commit()
	if !done {
		fmt.Println("ERROR window not found")
		os.Exit(2)
	}
	fmt.Printf("records=%d sha256=%x instr=%d loads=%d stores=%d\n", n, h.Sum(nil), ni, nl, ns)
}
