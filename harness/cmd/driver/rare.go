package main

// rareFixtures: signing inputs whose internal values sit on limb boundaries that random inputs reach with probability
// about 2^-28.  Found once by cmd/rarehunt with the standard library only (crypto/ed25519, crypto/sha512, math/big);
// replayed as ordinary sign events - the expected signature is NOT stored, TraceSign derives it.
var rareFixtures = []struct{ kind, seed, msg string }{
	{"smallS", "25303b46515c67727d88939ea9b4bfcad5e0ebf6010c17222d38434e59646f7a", "602b2e02000000000000000003000000"},
	{"shortNonce", "25303b46515c67727d88939ea9b4bfcad5e0ebf6010c17222d38434e59646f7a", "d2fc0f00000000000000000006000000"},
	{"shortNonce", "25303b46515c67727d88939ea9b4bfcad5e0ebf6010c17222d38434e59646f7a", "ddb93800000000000000000000000000"},
	{"shortNonce", "25303b46515c67727d88939ea9b4bfcad5e0ebf6010c17222d38434e59646f7a", "402be000000000000000000007000000"},
	{"shortNonce", "25303b46515c67727d88939ea9b4bfcad5e0ebf6010c17222d38434e59646f7a", "b678f900000000000000000002000000"},
}
