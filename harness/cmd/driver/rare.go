package main

// rareFixtures: signing inputs whose internal values sit on limb boundaries that random inputs reach with probability
// about 2^-28.  Found once by cmd/rarehunt with the standard library only (crypto/ed25519, crypto/sha512, math/big);
// replayed as ordinary sign events - the expected signature is NOT stored, TraceSign derives it.
var rareFixtures = []struct{ kind, seed, msg string }{}
