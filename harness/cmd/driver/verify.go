package main

import (
	"bufio"
	"bytes"
	"crypto"
	"encoding/json"
	"fmt"
	"hash/fnv"
	"math/big"
	"os"
	"runtime"
	"sort"
	"sync"

	"github.com/oasisprotocol/ed25519"
	"github.com/oasisprotocol/ed25519/verifharness/hx"
	"github.com/oasisprotocol/ed25519/verifharness/refmodel"
)

func init() { families["verify"] = runVerify }

type ptKind struct {
	K string `json:"k"`
	I int    `json:"i"`
}
type sRule struct {
	R string `json:"r"`
	J int    `json:"j"`
}
type vCase struct {
	Variant string `json:"variant"`
	A       ptKind `json:"A"`
	R       ptKind `json:"R"`
	S       sRule  `json:"S"`
	SigLen  int    `json:"siglen"`
}

func readCases(path string) []vCase {
	f, err := os.Open(path)
	if err != nil {
		panic(err)
	}
	defer f.Close()
	var out []vCase
	sc := bufio.NewScanner(f)
	sc.Buffer(make([]byte, 1<<20), 1<<26)
	for sc.Scan() {
		var c vCase
		if err := json.Unmarshal(sc.Bytes(), &c); err != nil {
			panic(err)
		}
		out = append(out, c)
	}
	return out
}

var (
	pow2 = func(n uint) *big.Int { return new(big.Int).Lsh(big.NewInt(1), n) }
	bi   = big.NewInt
)

func boundaries() []*big.Int {
	L := refmodel.L
	sub := func(a *big.Int, b int64) *big.Int { return new(big.Int).Sub(a, bi(b)) }
	add := func(a *big.Int, b int64) *big.Int { return new(big.Int).Add(a, bi(b)) }
	return []*big.Int{bi(0), bi(1), sub(pow2(252), 1), pow2(252), add(pow2(252), 1), sub(L, 1), L, add(L, 1),
		sub(pow2(253), 1), pow2(253), sub(pow2(255), 1), pow2(255), sub(pow2(256), 1)}
}

// nonCanonical returns the decodable strings y+p, 2 <= y < 19, with both sign bits.
func nonCanonical() []hx.PT {
	var out []hx.PT
	for y := int64(2); y < 19; y++ {
		for sign := 0; sign < 2; sign++ {
			e := refmodel.LE32(new(big.Int).Add(refmodel.P, bi(y)))
			e[31] |= byte(sign << 7)
			p := hx.FromBytes(e[:], "noncanonical")
			if p.Dec {
				out = append(out, p)
			}
		}
	}
	return out
}

func mkPoint(k ptKind, r *hx.Rng, so [][32]byte, nc []hx.PT) hx.PT {
	switch k.K {
	case "kt":
		return hx.KT(r.Scalar(), k.I, 0, fmt.Sprintf("kt%d", k.I))
	case "so":
		p := hx.FromBytes(so[k.I][:], fmt.Sprintf("so%d", k.I))
		return p
	case "undec":
		return hx.Undecodable(r)
	case "unk":
		return hx.RandomDecodable(r)
	case "nc":
		return nc[r.Intn(len(nc))]
	}
	panic("point kind " + k.K)
}

type vInst struct {
	c       vCase
	variant string
	ctx     []byte
	msg     []byte
	A, R    hx.PT
	sig     []byte
	S       *big.Int // value of sig[32:64] when len(sig) == 64
	h       [64]byte
	eq8     bool
}

func (in *vInst) opts(zip bool) *ed25519.Options {
	o := &ed25519.Options{ZIP215Verify: zip}
	switch in.variant {
	case "ctx":
		o.Context = string(in.ctx)
	case "ph":
		o.Context = string(in.ctx)
		o.Hash = crypto.SHA512
	}
	return o
}

// ctxPool: contexts shared by the ctx and the ph variant (and by successive cases), so that anything the library
// remembers per context between calls is exercised; the other half of the cases draws fresh random contexts.
var ctxPool = [][]byte{[]byte("v"), []byte("verif-context-16"), bytes.Repeat([]byte{0xc5}, 255)}

func ctxFor(variant string, r *hx.Rng) []byte {
	if (variant == "ctx" || variant == "ph") && r.Intn(2) == 0 {
		return append([]byte(nil), ctxPool[r.Intn(len(ctxPool))]...)
	}
	switch variant {
	case "ctx":
		return r.Bytes([]int{1, 2, 16, 254, 255, 1 + r.Intn(255)}[r.Intn(6)])
	case "ph":
		return r.Bytes([]int{0, 1, 16, 255, r.Intn(256)}[r.Intn(5)])
	}
	return nil
}

func msgFor(variant string, r *hx.Rng) []byte {
	if variant == "ph" {
		return r.Bytes(64)
	}
	return r.Bytes([]int{0, 1, 32, 64, 111, 112, 128, 200}[r.Intn(8)])
}

// instantiate turns an abstract case into concrete bytes.
func instantiate(c vCase, r *hx.Rng, so [][32]byte, nc []hx.PT) *vInst {
	in := &vInst{c: c, variant: c.Variant}
	in.ctx = ctxFor(c.Variant, r)
	in.msg = msgFor(c.Variant, r)
	in.A = mkPoint(c.A, r, so, nc)
	bnd := boundaries()
	if c.S.R == "bnd" && in.A.Known && in.A.Small {
		// small-order key: the equation holds for arbitrary S with R := [S]B + T
		in.S = bnd[c.S.J]
		in.R = hx.KT(in.S, c.R.I, 0, fmt.Sprintf("[S]B+T%d", c.R.I))
	} else {
		in.R = mkPoint(c.R, r, so, nc)
	}
	in.h = hx.HRAM(in.variant, in.ctx, in.R.Bytes[:], in.A.Bytes[:], in.msg)
	hv := refmodel.FromLE(in.h[:])
	if in.S == nil {
		var exact *big.Int
		if in.A.Dec && in.R.Dec && in.A.Known && in.R.Known {
			exact = new(big.Int).Mul(new(big.Int).Mod(hv, refmodel.L), in.A.K)
			exact.Add(exact, in.R.K).Mod(exact, refmodel.L)
		} else {
			exact = r.Scalar()
			// half of the time: the S that would satisfy the equation if the library put the neutral element in the
			// place of a point it could not decode
			if r.Intn(2) == 0 {
				switch {
				case !in.R.Dec && in.A.Dec && in.A.Known:
					exact = new(big.Int).Mul(new(big.Int).Mod(hv, refmodel.L), in.A.K)
					exact.Mod(exact, refmodel.L)
				case !in.A.Dec && in.R.Dec && in.R.Known:
					exact = new(big.Int).Mod(in.R.K, refmodel.L)
				case !in.A.Dec && !in.R.Dec:
					exact = new(big.Int)
				}
			}
		}
		switch c.S.R {
		case "exact":
			in.S = exact
		case "plusL":
			j := int64(c.S.J)
			for {
				in.S = new(big.Int).Add(exact, new(big.Int).Mul(bi(j), refmodel.L))
				if in.S.BitLen() <= 256 {
					break
				}
				j--
			}
		case "flip":
			in.S = new(big.Int).Xor(exact, pow2(uint(c.S.J)))
		case "bnd":
			in.S = bnd[c.S.J]
		default:
			panic("srule " + c.S.R)
		}
	}
	sig := append(append([]byte{}, in.R.Bytes[:]...), refmodel.LE(in.S, 32)...)
	switch {
	case c.SigLen < 64:
		sig = sig[:c.SigLen]
	case c.SigLen > 64:
		sig = append(sig, r.Bytes(c.SigLen-64)...)
	}
	in.sig = sig
	if in.A.Dec && in.R.Dec && !(in.A.Known && in.R.Known) {
		in.eq8 = hx.Eq8(in.S, hv, in.A.Pt, in.R.Pt)
	}
	return in
}

func (in *vInst) event(api string, zip bool, got bool, caseNo int) map[string]interface{} {
	S := make([]byte, 32)
	if len(in.sig) == 64 {
		copy(S, in.sig[32:])
	}
	return map[string]interface{}{
		"op": "verify", "api": api, "zip": zip, "variant": in.variant, "siglen": len(in.sig),
		"S": hx.Ints(S), "A": in.A.Desc(), "R": in.R.Desc(), "h": hx.Ints(in.h[:]), "eq8": in.eq8,
		"got": got, "case": caseNo, "cfg": *fCfg,
		"srule": fmt.Sprintf("%s%d", in.c.S.R, in.c.S.J),
		"ctx":   hx.Ints(in.ctx), "msg": hx.Ints(in.msg), "sig": hx.Ints(in.sig),
	}
}

// honestEntry returns a valid (key, msg, sig) for the options of in.
func honestEntry(tr *hx.Trace, in *vInst, r *hx.Rng) (ed25519.PublicKey, []byte, []byte) {
	priv := sNewKey(tr, r.Bytes(32))
	msg := msgFor(in.variant, r)
	sig, err := sSign(tr, priv, nil, msg, in.opts(false))
	if err != nil {
		note(tr, "unexpected error from PrivateKey.Sign: "+err.Error())
		sig = make([]byte, 64)
	}
	return priv.Public().(ed25519.PublicKey), msg, sig
}

// callAll runs the instance through the verifier entry points and emits events.
func callAll(tr *hx.Trace, in *vInst, r *hx.Rng, caseNo int, withBatch bool) {
	key := ed25519.PublicKey(in.A.Bytes[:])
	if in.variant == "pure" {
		tr.Emit(in.event("Verify", false, sVerify(tr, key, in.msg, in.sig), caseNo))
	}
	for _, zip := range []bool{false, true} {
		tr.Emit(in.event("VerifyWithOptions", zip, sVerifyOpts(tr, key, in.msg, in.sig, in.opts(zip)), caseNo))
	}
	if !withBatch {
		return
	}
	for _, zip := range []bool{false, true} {
		n := 4 + r.Intn(3)
		pos := r.Intn(n)
		keys := make([]ed25519.PublicKey, n)
		msgs := make([][]byte, n)
		sigs := make([][]byte, n)
		for i := 0; i < n; i++ {
			if i == pos {
				keys[i], msgs[i], sigs[i] = key, in.msg, in.sig
			} else {
				keys[i], msgs[i], sigs[i] = honestEntry(tr, in, r)
			}
		}
		ok, valid, _ := sBatch(tr, r, keys, msgs, sigs, in.opts(zip))
		ev := in.event("VerifyBatch", zip, valid[pos], caseNo)
		ev["batch_n"], ev["batch_pos"], ev["batch_ok"] = n, pos, ok
		tr.Emit(ev)
		// the other entries are honest signatures: they must be reported valid,
		// and the summary flag must be the conjunction
		all := true
		for i, v := range valid {
			if i != pos && !v {
				tr.Emit(map[string]interface{}{"op": "note", "what": "honest batch neighbour rejected", "case": caseNo})
			}
			all = all && v
		}
		if all != ok {
			tr.Emit(map[string]interface{}{"op": "note", "what": "batch summary flag is not the conjunction", "case": caseNo})
		}
	}
}

func pick(seed int64, i int, num, den uint32) bool {
	h := fnv.New32a()
	fmt.Fprintf(h, "%d/%d", seed, i)
	return h.Sum32()%den < num
}

func orderKey(seed int64, i int) uint32 {
	h := fnv.New32a()
	fmt.Fprintf(h, "order/%d/%d", seed, i)
	return h.Sum32()
}

func runVerify() {
	cases := readCases(*fCases)
	r := hx.NewRng(*fSeed)
	tr := hx.NewTrace(*fOut)
	defer tr.Close()
	so := refmodel.SmallOrderEncodings()
	nc := nonCanonical()

	prop := *fProp
	thorough := *fTier == "thorough"
	type job struct {
		i int
		c vCase
	}
	jobs := make(chan job, 64)
	var wg sync.WaitGroup
	for w := 0; w < runtime.NumCPU(); w++ {
		wg.Add(1)
		go func() {
			defer wg.Done()
			for j := range jobs {
				cr := hx.NewRng(*fSeed*1000003 + int64(j.i))
				in := instantiate(j.c, cr, so, nc)
				withBatch := prop == "C04" || prop == "C05" || prop == "C09" || thorough || pick(*fSeed, j.i, 1, 4)
				callAll(tr, in, cr, j.i, withBatch)
			}
		}()
	}
	var selected []job
	for i, c := range cases {
		boundary := c.S.R == "bnd"
		smallA, smallR := c.A.K == "so", c.R.K == "so"
		var want bool
		var num, den uint32 = 1, 1
		switch prop {
		case "C01": // default-mode predicate: everything, sampled in quick
			want, num, den = true, 1, 10
		case "C05": // ZIP-215: small-order keys / R and the boundary family
			want, num, den = smallA || smallR || boundary || c.A.K == "nc" || c.R.K == "nc" || c.A.K == "undec" || c.R.K == "undec", 1, 10
		case "C04": // the S < L boundary in all four verifier modes
			want, num, den = boundary || c.S.R == "plusL" || c.S.R == "flip", 1, 12
		case "C09": // small-order refusal
			want, num, den = (smallA || smallR || c.A.K == "kt" || c.R.K == "kt" || c.A.K == "nc" || c.R.K == "nc") && c.S.R == "exact", 1, 3
		default:
			want = true
		}
		if !want {
			continue
		}
		// mandatory core of the quick tier: the pure-variant boundary family on identity-encoded keys
		core := boundary && c.Variant == "pure" && c.A.K == "so" && c.A.I == 0 && c.R.I == 0 && (prop == "C04" || prop == "C01" || prop == "C05")
		if !thorough && !core && !pick(*fSeed, i, num, den) {
			continue
		}
		selected = append(selected, job{i, c})
	}
	// the case matrix is grouped by variant; feed it in a seeded pseudo-random order so that calls of different variants,
	// contexts and keys follow each other (anything remembered between calls must not matter)
	sort.Slice(selected, func(a, b int) bool {
		ha, hb := orderKey(*fSeed, selected[a].i), orderKey(*fSeed, selected[b].i)
		return ha < hb || (ha == hb && selected[a].i < selected[b].i)
	})
	for _, j := range selected {
		jobs <- j
	}
	close(jobs)
	wg.Wait()

	if prop == "C01" || prop == "" {
		perturb(tr, r, thorough)
	}
	if prop == "C04" || prop == "" {
		scMinDirect(tr, r, thorough)
	}
	if prop == "C09" || prop == "" {
		smallOrderDirect(tr, r, so, nc, thorough)
	}
	fmt.Printf("events=%d\n", tr.Count())
}

// perturb: every single-bit perturbation of S and a sample of the bits of R, A
// and the message of accepted triples.
func perturb(tr *hx.Trace, r *hx.Rng, thorough bool) {
	triples := 1
	if thorough {
		triples = 6
	}
	so := refmodel.SmallOrderEncodings()
	for n := 0; n < triples; n++ {
		variant := []string{"pure", "ctx", "ph"}[n%3]
		base := instantiate(vCase{Variant: variant, A: ptKind{"kt", n % 8}, R: ptKind{"kt", (3 * n) % 8}, S: sRule{"exact", 0}, SigLen: 64}, r, so, nil)
		callAll(tr, base, r, -1, false)
		flipIn := func(which string, bit int) {
			in := *base
			A, R, sig, msg := base.A, base.R, append([]byte{}, base.sig...), append([]byte{}, base.msg...)
			switch which {
			case "S":
				sig[32+bit/8] ^= 1 << uint(bit%8)
			case "R":
				sig[bit/8] ^= 1 << uint(bit%8)
				R = hx.FromBytes(sig[:32], "bitflip-R")
			case "A":
				b := append([]byte{}, base.A.Bytes[:]...)
				b[bit/8] ^= 1 << uint(bit%8)
				A = hx.FromBytes(b, "bitflip-A")
			case "M":
				if len(msg) == 0 {
					return
				}
				msg[(bit/8)%len(msg)] ^= 1 << uint(bit%8)
			}
			in.A, in.R, in.sig, in.msg = A, R, sig, msg
			in.S = refmodel.FromLE(sig[32:])
			in.h = hx.HRAM(in.variant, in.ctx, sig[:32], A.Bytes[:], msg)
			in.eq8 = false
			if A.Dec && R.Dec {
				if A.Known && R.Known && which != "A" && which != "R" {
					// coordinates unchanged: TLC decides
				} else {
					in.A.Known, in.R.Known = in.A.Known && (which != "A"), in.R.Known && (which != "R")
					in.eq8 = hx.Eq8(in.S, refmodel.FromLE(in.h[:]), A.Pt, R.Pt)
				}
			}
			in.c.S = sRule{"perturb-" + which, bit}
			callAll(tr, &in, r, -1, false)
		}
		for bit := 0; bit < 256; bit++ {
			flipIn("S", bit)
		}
		step := 8
		if thorough {
			step = 1
		}
		for bit := r.Intn(step); bit < 256; bit += step {
			flipIn("R", bit)
			flipIn("A", bit)
		}
		for bit := 0; bit < 16; bit++ {
			flipIn("M", r.Intn(8*64))
		}
	}
}

// scMinDirect drives the unexported scMinimal on a boundary-dense set.
func scMinDirect(tr *hx.Trace, r *hx.Rng, thorough bool) {
	emit := func(v *big.Int) {
		if v.Sign() < 0 || v.BitLen() > 256 {
			return
		}
		b := refmodel.LE(v, 32)
		tr.Emit(map[string]interface{}{"op": "scmin", "S": hx.Ints(b), "got": sScMin(tr, b), "cfg": *fCfg})
	}
	L := refmodel.L
	// around k*L for every k that fits, and around every boundary
	for k := int64(0); k <= 16; k++ {
		base := new(big.Int).Mul(bi(k), L)
		for d := int64(-17); d <= 17; d++ {
			emit(new(big.Int).Add(base, bi(d)))
		}
	}
	for _, b := range boundaries() {
		for d := int64(-2); d <= 2; d++ {
			emit(new(big.Int).Add(b, bi(d)))
		}
	}
	// every top-byte value with low part 0 / all-ones / L's low part / random
	lowL := new(big.Int).Mod(L, pow2(248))
	for top := int64(0); top < 256; top++ {
		hi := new(big.Int).Lsh(bi(top), 248)
		emit(hi)
		emit(new(big.Int).Add(hi, new(big.Int).Sub(pow2(248), bi(1))))
		emit(new(big.Int).Add(hi, lowL))
		emit(new(big.Int).Add(hi, refmodel.FromLE(r.Bytes(31))))
	}
	// word-wise: for each 64-bit word i of the comparison, order[i]-1 / order[i] /
	// order[i]+1 with higher words equal to the order's and lower words 0 / max / random
	mask64 := new(big.Int).Sub(pow2(64), bi(1))
	for i := uint(0); i < 4; i++ {
		hiPart := new(big.Int).Lsh(new(big.Int).Rsh(L, 64*(i+1)), 64*(i+1))
		ow := new(big.Int).And(new(big.Int).Rsh(L, 64*i), mask64)
		for d := int64(-1); d <= 1; d++ {
			w := new(big.Int).Add(ow, bi(d))
			if w.Sign() < 0 || w.Cmp(mask64) > 0 {
				continue
			}
			mid := new(big.Int).Lsh(w, 64*i)
			lowMax := new(big.Int).Sub(pow2(64*i), bi(1))
			for _, low := range []*big.Int{bi(0), lowMax, new(big.Int).And(refmodel.FromLE(r.Bytes(32)), lowMax), new(big.Int).And(L, lowMax)} {
				v := new(big.Int).Add(hiPart, mid)
				emit(v.Add(v, low))
			}
		}
	}
	n := 200
	if thorough {
		n = 5000
	}
	for i := 0; i < n; i++ {
		v := refmodel.FromLE(r.Bytes(32))
		switch i % 4 {
		case 1:
			v.Rsh(v, 3) // < 2^253
		case 2:
			v.Rsh(v, 4).SetBit(v, 252, 1) // [2^252, 2^253)
		case 3:
			v.Mod(v, L).SetBit(v, 252, 1) // near the interesting slice
			if v.Cmp(L) >= 0 && i%8 == 3 {
				v.Sub(v, new(big.Int).Rsh(refmodel.FromLE(r.Bytes(15)), 1))
			}
		}
		emit(v)
	}
}

// smallOrderDirect drives isSmallOrderVartime.
func smallOrderDirect(tr *hx.Trace, r *hx.Rng, so [][32]byte, nc []hx.PT, thorough bool) {
	emit := func(p hx.PT) {
		tr.Emit(map[string]interface{}{"op": "smallorder", "P": p.Desc(), "got": sSmallOrder(tr, p.Bytes[:]), "cfg": *fCfg})
	}
	for i := range so {
		emit(hx.FromBytes(so[i][:], fmt.Sprintf("so%d", i)))
	}
	reps := 4
	if thorough {
		reps = 64
	}
	for n := 0; n < reps; n++ {
		for t := 0; t < 8; t++ {
			emit(hx.KT(r.Scalar(), t, 0, fmt.Sprintf("kt%d", t)))
		}
		emit(hx.Undecodable(r))
		emit(hx.RandomDecodable(r))
	}
	for _, p := range nc {
		emit(p)
	}
	// small k: [k]B + T for k = 1, 2, L-1 (closest to the torsion subgroup in the exponent)
	for _, k := range []*big.Int{bi(1), bi(2), new(big.Int).Sub(refmodel.L, bi(1)), bi(8), pow2(252)} {
		for t := 0; t < 8; t++ {
			emit(hx.KT(k, t, 0, "small-k"))
		}
	}
}

func sScMin(tr *hx.Trace, b []byte) (ok bool) {
	guard(tr, "scMinimal", func() { ok = ed25519.VerifScMinimal(b) })
	return
}

func sSmallOrder(tr *hx.Trace, b []byte) (ok bool) {
	guard(tr, "isSmallOrderVartime", func() { ok = ed25519.VerifIsSmallOrderVartime(b) })
	return
}
