package main

import (
	"bytes"
	"crypto/sha256"
	"crypto/sha512"
	"encoding/binary"
	"fmt"
	"math/big"

	"github.com/oasisprotocol/ed25519"
	"github.com/oasisprotocol/ed25519/extra/x25519"
	"github.com/oasisprotocol/ed25519/internal/curve25519"
	"github.com/oasisprotocol/ed25519/internal/ge25519"
	"github.com/oasisprotocol/ed25519/internal/modm"
	"github.com/oasisprotocol/ed25519/verifharness/hx"
	"github.com/oasisprotocol/ed25519/verifharness/refmodel"
)

func init() { families["transcript"] = runTranscript }

// runTranscript computes, for a seed-determined list of inputs, everything a caller can observe
// (public keys, signatures, verdicts, batch vectors, X25519 outputs, conversions, and the canonical
// outputs of the internal layers).  The same inputs are generated under every build configuration;
// TraceConfigs.tla requires equal observations for equal keys.
func runTranscript() {
	r := hx.NewRng(*fSeed)
	tr := hx.NewTrace(*fOut)
	defer tr.Close()
	thorough := *fTier == "thorough"
	cfg := *fCfg
	obs := func(key string, val []byte) {
		if len(val) > 96 {
			h := sha256.Sum256(val)
			val = h[:]
		}
		tr.Emit(map[string]interface{}{"op": "obs", "key": key, "val": hx.Ints(val), "cfg": cfg})
	}
	b2 := func(b bool) byte {
		if b {
			return 1
		}
		return 0
	}
	// keys and signatures
	n := 40
	if thorough {
		n = 400
	}
	pairs := []vpair{{"pure", nil}, {"ctx", []byte("c")}, {"ctx", bytes.Repeat([]byte{7}, 255)}, {"ph", nil}, {"ph", []byte("ctx")}}
	for i := 0; i < n; i++ {
		seed := r.Bytes(32)
		if i == 0 {
			seed = make([]byte, 32)
		}
		priv := sNewKey(tr, seed)
		obs(fmt.Sprintf("key/%d", i), priv[32:])
		for _, p := range pairs {
			msg := r.Bytes([]int{0, 1, 64, 127, 128, 200}[i%6])
			if p.variant == "ph" {
				msg = r.Bytes(64)
			}
			sig, err := sSign(tr, priv, nil, msg, p.opts(false))
			if err != nil {
				sig = []byte(err.Error())
			}
			obs(fmt.Sprintf("sig/%d/%s", i, p.String()), sig)
		}
		xp := x25519.EdPrivateKeyToX25519(priv)
		xpub, _ := x25519.X25519(xp, x25519.Basepoint)
		cpub, ok := x25519.EdPublicKeyToX25519(ed25519.PublicKey(priv[32:]))
		obs(fmt.Sprintf("conv/%d", i), append(append(append([]byte{b2(ok)}, xp...), xpub...), cpub...))
	}
	// verification verdicts on the structured case matrix (a seed-independent slice of it)
	cases := readCases(*fCases)
	so := refmodel.SmallOrderEncodings()
	nc := nonCanonical()
	step := 23
	if thorough {
		step = 3
	}
	for i := 0; i < len(cases); i += step {
		cr := hx.NewRng(*fSeed*1000003 + int64(i))
		in := instantiate(cases[i], cr, so, nc)
		key := ed25519.PublicKey(in.A.Bytes[:])
		v := []byte{b2(sVerifyOpts(tr, key, in.msg, in.sig, in.opts(false))), b2(sVerifyOpts(tr, key, in.msg, in.sig, in.opts(true)))}
		if in.variant == "pure" {
			v = append(v, b2(sVerify(tr, key, in.msg, in.sig)))
		}
		// and as a batch member
		nb := 4 + cr.Intn(3)
		pos := cr.Intn(nb)
		keys := make([]ed25519.PublicKey, nb)
		msgs := make([][]byte, nb)
		sigs := make([][]byte, nb)
		for j := 0; j < nb; j++ {
			if j == pos {
				keys[j], msgs[j], sigs[j] = key, in.msg, in.sig
			} else {
				keys[j], msgs[j], sigs[j] = honestEntry(tr, in, cr)
			}
		}
		for _, zip := range []bool{false, true} {
			ok, valid, _ := sBatch(tr, cr, keys, msgs, sigs, in.opts(zip))
			v = append(v, b2(ok))
			for _, x := range valid {
				v = append(v, b2(x))
			}
		}
		obs(fmt.Sprintf("verify/%d", i), v)
	}
	// bigger batches (multi-chunk) with bad entries at seeded positions
	sizes := []int{4, 5, 63, 64, 65, 70, 130}
	for bi, nb := range sizes {
		cr := hx.NewRng(*fSeed*7919 + int64(bi))
		o := newOptSet([]string{"pure", "ctx", "ph"}[bi%3], cr, 24)
		entries := make([]*bEntry, nb)
		for j := range entries {
			entries[j] = o.pool[cr.Intn(len(o.pool))]
		}
		for _, k := range []string{"wrongMsg", "SplusL", "smallA", "truncSig"} {
			entries[cr.Intn(nb)] = mutate(o, entries[cr.Intn(nb)], k, cr, so)
		}
		keys := make([]ed25519.PublicKey, nb)
		msgs := make([][]byte, nb)
		sigs := make([][]byte, nb)
		for j, e := range entries {
			keys[j], msgs[j], sigs[j] = e.key, e.msg, e.sig
		}
		for _, zip := range []bool{false, true} {
			ok, valid, _ := sBatch(tr, cr, keys, msgs, sigs, o.opts(zip))
			v := []byte{b2(ok)}
			for _, x := range valid {
				v = append(v, b2(x))
			}
			obs(fmt.Sprintf("batch/%d/%v", nb, zip), v)
		}
	}
	// X25519
	nine := []byte{9, 0, 0, 0, 0, 0, 0, 0, 0, 0, 0, 0, 0, 0, 0, 0, 0, 0, 0, 0, 0, 0, 0, 0, 0, 0, 0, 0, 0, 0, 0, 0}
	for pos := 0; pos < 64; pos += 2 {
		for _, v := range []byte{7, 8, 9, 15} {
			s := bytes.Repeat([]byte{0x88}, 32)
			if pos%2 == 0 {
				s[pos/2] = s[pos/2]&0xf0 | v
			} else {
				s[pos/2] = s[pos/2]&0x0f | v<<4
			}
			a, _ := x25519.X25519(s, x25519.Basepoint)
			b, _ := x25519.X25519(s, append([]byte{}, nine...))
			obs(fmt.Sprintf("x25519/nib/%d/%d", pos, v), append(a, b...))
		}
	}
	for i := 0; i < n; i++ {
		s, u := r.Bytes(32), r.Bytes(32)
		a, _ := x25519.X25519(s, x25519.Basepoint)
		b, errb := x25519.X25519(s, u)
		obs(fmt.Sprintf("x25519/rnd/%d", i), append(append(a, b...), b2(errb != nil)))
	}
	// the array API, and inputs whose correct result is below 19 (the ladder back ends differ in how they leave such values)
	for c := int64(1); c < 40; c++ {
		sc, uin, ok := craftResult(r, big.NewInt(c))
		if !ok {
			continue
		}
		var sm, sb, in, pt [32]byte
		copy(in[:], sc)
		copy(pt[:], uin)
		x25519.ScalarMult(&sm, &in, &pt)
		x25519.ScalarBaseMult(&sb, &in)
		b, errb := x25519.X25519(sc, uin)
		obs(fmt.Sprintf("x25519/small/%d", c), append(append(append(sm[:], sb[:]...), b...), b2(errb != nil)))
	}
	for i := 0; i < n; i++ {
		var sm, sb, in, pt [32]byte
		copy(in[:], r.Bytes(32))
		copy(pt[:], r.Bytes(32))
		x25519.ScalarMult(&sm, &in, &pt)
		x25519.ScalarBaseMult(&sb, &in)
		obs(fmt.Sprintf("x25519/array/%d", i), append(sm[:], sb[:]...))
	}
	// S < L decided word by word: S = L with one 32-bit word replaced, and 2^252 + w 2^(32 j); the verdict of the library's
	// own range test and of ZIP-215 verification of (identity key, R = [S]B, S), which is valid exactly when S < L
	idKey := ed25519.PublicKey(append([]byte{1}, make([]byte, 31)...))
	for j := 0; j < 8; j++ {
		for wi, w := range []uint32{0, 1, 0x7fffffff, 0x80000000, 0xfffffffe, 0xffffffff} {
			for base := 0; base < 2; base++ {
				var S *big.Int
				if base == 0 {
					b := refmodel.LE(refmodel.L, 32)
					binary.LittleEndian.PutUint32(b[4*j:], w)
					S = refmodel.FromLE(b)
				} else {
					S = new(big.Int).Add(new(big.Int).Lsh(big.NewInt(1), 252), new(big.Int).Lsh(new(big.Int).SetUint64(uint64(w)), uint(32*j)))
				}
				if S.BitLen() > 256 {
					continue
				}
				sb := refmodel.LE(S, 32)
				R := refmodel.BaseMul(new(big.Int).Mod(S, refmodel.L)).Encode()
				sig := append(append([]byte{}, R[:]...), sb...)
				v := []byte{b2(ed25519.VerifScMinimal(sb)), b2(sVerifyOpts(tr, idKey, []byte("m"), sig, &ed25519.Options{ZIP215Verify: true})),
					b2(sVerifyOpts(tr, idKey, []byte("m"), sig, &ed25519.Options{}))}
				obs(fmt.Sprintf("scminimal/%d/%d/%d", j, wi, base), v)
			}
		}
	}
	// internal layers: canonical outputs must not depend on the limb layout / selector / conditional move
	for i := 0; i < n; i++ {
		wide := r.Bytes(64)
		var s, t, o modm.Bignum256
		modm.Expand(&s, wide)
		modm.Expand(&t, r.Bytes(32))
		var sb, mb, ab [32]byte
		modm.Contract(sb[:], &s)
		modm.Mul(&o, &s, &t)
		modm.Contract(mb[:], &o)
		modm.Add(&o, &s, &t)
		modm.Contract(ab[:], &o)
		var w4 [64]int8
		modm.ContractWindow4(&w4, &s)
		var sw [256]int8
		modm.ContractSlidingWindow(&sw, &s, 5)
		d := append(append(append([]byte{}, sb[:]...), mb[:]...), ab[:]...)
		for _, x := range w4 {
			d = append(d, byte(x))
		}
		for _, x := range sw {
			d = append(d, byte(x))
		}
		obs(fmt.Sprintf("modm/%d", i), d)

		var fa, fb, fo curve25519.Bignum25519
		curve25519.Expand(&fa, r.Bytes(32))
		curve25519.Expand(&fb, r.Bytes(32))
		var f1, f2, f3, f4 [32]byte
		curve25519.Mul(&fo, &fa, &fb)
		curve25519.Contract(f1[:], &fo)
		curve25519.Sub(&fo, &fa, &fb)
		curve25519.Square(&fo, &fo)
		curve25519.Contract(f2[:], &fo)
		curve25519.Recip(&fo, &fa)
		curve25519.Contract(f3[:], &fo)
		curve25519.PowTwo252m3(&fo, &fb)
		curve25519.Contract(f4[:], &fo)
		obs(fmt.Sprintf("field/%d", i), append(append(append(f1[:], f2[:]...), f3[:]...), f4[:]...))

		k := new(big.Int).Mod(refmodel.FromLE(wide), refmodel.L)
		var P ge25519.Ge25519
		modm.ExpandRaw(&s, refmodel.LE(k, 32))
		ge25519.ScalarmultBaseNiels(&P, &ge25519.NielsBaseMultiples, &s)
		var pb [32]byte
		ge25519.Pack(pb[:], &P)
		obs(fmt.Sprintf("basemul/%d", i), pb[:])
	}
	for pos := 0; pos < 32; pos++ {
		var d []byte
		for b := -8; b <= 8; b++ {
			var t ge25519.VerifNiels
			ge25519.VerifChooseNiels(&t, &ge25519.NielsBaseMultiples, pos, int8(b))
			for _, f := range []*curve25519.Bignum25519{&t.YsubX, &t.XaddY, &t.T2d} {
				var o [32]byte
				curve25519.Contract(o[:], f)
				d = append(d, o[:]...)
			}
		}
		obs(fmt.Sprintf("choose/%d", pos), d)
	}
	hs := sha512.Sum512([]byte("transcript"))
	_ = hs
	fmt.Printf("events=%d\n", tr.Count())
}
