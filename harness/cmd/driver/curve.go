package main

import (
	"bytes"
	"crypto/sha512"
	"fmt"
	"math/big"

	"github.com/oasisprotocol/ed25519"
	"github.com/oasisprotocol/ed25519/extra/x25519"
	"github.com/oasisprotocol/ed25519/internal/curve25519"
	"github.com/oasisprotocol/ed25519/internal/ge25519"
	"github.com/oasisprotocol/ed25519/verifharness/hx"
	"github.com/oasisprotocol/ed25519/verifharness/refmodel"
)

func init() { families["curve"] = runCurve }

// limbsToBig returns the integer represented by a field element (either layout).
func limbsToBig(b *curve25519.Bignum25519) *big.Int {
	v := new(big.Int)
	n := len(b)
	shift := uint(0)
	for i := 0; i < n; i++ {
		t := new(big.Int).SetUint64(uint64(b[i]))
		v.Add(v, t.Lsh(t, shift))
		if n == 5 {
			shift += 51
		} else if i%2 == 0 {
			shift += 26
		} else {
			shift += 25
		}
	}
	return v
}

func feBytes(b *curve25519.Bignum25519) []int {
	v := limbsToBig(b)
	return hx.Ints(refmodel.LE(v, 40))
}

func pLimbs() curve25519.Bignum25519 {
	var out curve25519.Bignum25519
	pb := refmodel.LE32(refmodel.P)
	curve25519.Expand(&out, pb[:])
	return out
}

func witnessOf(di refmodel.DecodeInfo) (string, []int) {
	kind := "sqrt"
	if !di.OK {
		kind = "nonsq"
	}
	return kind, hx.Ints(refmodel.LE(di.Root, 32))
}

// decodeInputs returns the structured set of 32-byte strings C10 names.
func decodeInputs(r *hx.Rng, thorough bool) [][]byte {
	var out [][]byte
	add := func(v *big.Int, sign byte) {
		e := refmodel.LE32(v)
		e[31] |= sign << 7
		out = append(out, e[:])
	}
	for d := int64(0); d < 19; d++ { // the 19 values y in [p, 2^255)
		for s := byte(0); s < 2; s++ {
			add(new(big.Int).Add(refmodel.P, big.NewInt(d)), s)
		}
	}
	for d := int64(0); d < 24; d++ { // small y and y just below p
		for s := byte(0); s < 2; s++ {
			add(big.NewInt(d), s)
			add(new(big.Int).Sub(refmodel.P, big.NewInt(d+1)), s)
		}
	}
	for _, e := range refmodel.SmallOrderEncodings() {
		out = append(out, append([]byte{}, e[:]...))
	}
	n := 150
	if thorough {
		n = 3000
	}
	branch := [3]int{}
	for i := 0; i < n; i++ {
		b := r.Bytes(32)
		branch[refmodel.Decode(b).Branch]++
		out = append(out, b)
	}
	for i := 0; i < n/3; i++ { // honest points (canonical)
		e := refmodel.FromKT(r.Scalar(), r.Intn(8)).Encode()
		out = append(out, e[:])
	}
	return out
}

func runCurve() {
	r := hx.NewRng(*fSeed)
	tr := hx.NewTrace(*fOut)
	defer tr.Close()
	thorough := *fTier == "thorough"
	prop := *fProp
	cfg := *fCfg

	if prop == "C10" || prop == "C12" || prop == "C09" || prop == "" {
		ins := decodeInputs(r, thorough)
		pl := pLimbs()
		for _, b := range ins {
			di := refmodel.Decode(b)
			kind, wit := witnessOf(di)
			if prop == "C10" || prop == "" {
				for _, neg := range []bool{false, true} {
					var P ge25519.Ge25519
					var ok bool
					if guard(tr, "Unpack", func() {
						if neg {
							ok = ge25519.UnpackNegativeVartime(&P, b)
						} else {
							ok = ge25519.UnpackVartime(&P, b)
						}
					}) {
						continue
					}
					ev := map[string]interface{}{"op": "decode", "bytes": hx.Ints(b), "wkind": kind, "witness": wit, "ok": ok, "negative": neg,
						"hasPoint": ok, "branch": di.Branch, "cfg": cfg, "x": []int{}, "y": []int{}, "z": []int{}, "t": []int{}}
					if ok {
						var xb, yb, zb, tb [32]byte
						curve25519.Contract(xb[:], P.X())
						curve25519.Contract(yb[:], P.Y())
						curve25519.Contract(zb[:], P.Z())
						curve25519.Contract(tb[:], P.T())
						ev["x"], ev["y"], ev["z"], ev["t"] = hx.Ints(xb[:]), hx.Ints(yb[:]), hx.Ints(zb[:]), hx.Ints(tb[:])
					}
					tr.Emit(ev)
					// pack: canonical output for every internal representation of the decoded point
					if ok && !neg {
						for variant := 0; variant < 4; variant++ {
							Q := P
							lam := refmodel.FromLE(r.Bytes(32))
							lam.Mod(lam, refmodel.P)
							if lam.Sign() == 0 {
								lam.SetInt64(2)
							}
							var lf curve25519.Bignum25519
							lb := refmodel.LE32(lam)
							curve25519.Expand(&lf, lb[:])
							switch variant {
							case 0: // as decoded (Z = 1)
							case 1: // scaled by lambda (Z != 1), outputs of Mul
								curve25519.Mul(Q.X(), P.X(), &lf)
								curve25519.Mul(Q.Y(), P.Y(), &lf)
								curve25519.Mul(Q.Z(), P.Z(), &lf)
							case 2: // unreduced coordinates: x + p, y + p (limb-wise add, no carry)
								curve25519.Add(Q.X(), P.X(), &pl)
								curve25519.Add(Q.Y(), P.Y(), &pl)
							case 3: // scaled and unreduced, Z + p as well
								curve25519.Mul(Q.X(), P.X(), &lf)
								curve25519.Mul(Q.Y(), P.Y(), &lf)
								curve25519.Mul(Q.Z(), P.Z(), &lf)
								curve25519.Add(Q.X(), Q.X(), &pl)
								curve25519.Add(Q.Y(), Q.Y(), &pl)
								curve25519.Add(Q.Z(), Q.Z(), &pl)
							}
							X, Y, Z := limbsToBig(Q.X()), limbsToBig(Q.Y()), limbsToBig(Q.Z())
							var out [32]byte
							if guard(tr, "Pack", func() { ge25519.Pack(out[:], &Q) }) {
								continue
							}
							tr.Emit(map[string]interface{}{"op": "pack", "X": hx.Ints(refmodel.LE(X, 40)), "Y": hx.Ints(refmodel.LE(Y, 40)), "Z": hx.Ints(refmodel.LE(Z, 40)),
								"zinv": hx.Ints(refmodel.LE(refmodel.Finv(new(big.Int).Mod(Z, refmodel.P)), 32)), "out": hx.Ints(out[:]), "variant": variant, "cfg": cfg})
						}
					}
				}
			}
			if prop == "C12" || prop == "C10" || prop == "" {
				var out []byte
				var ok bool
				arg := append([]byte{}, b...)
				if !guard(tr, "EdPublicKeyToX25519", func() { out, ok = x25519.EdPublicKeyToX25519(ed25519.PublicKey(arg)) }) {
					inv := big.NewInt(0)
					if di.OK {
						den := refmodel.Fsub(big.NewInt(1), di.Y)
						if den.Sign() != 0 {
							inv = refmodel.Finv(den)
						}
					}
					if out == nil {
						out = []byte{}
					}
					tr.Emit(map[string]interface{}{"op": "edpub2x", "bytes": hx.Ints(b), "wkind": kind, "witness": wit, "ok": ok, "out": hx.Ints(out),
						"inv": hx.Ints(refmodel.LE(inv, 32)), "unchanged": bytes.Equal(arg, b), "cfg": cfg})
				}
			}
			if (prop == "C09" || prop == "") && di.OK {
				var got bool
				if !guard(tr, "isSmallOrderVartime", func() { got = ed25519.VerifIsSmallOrderVartime(b) }) {
					tr.Emit(map[string]interface{}{"op": "mul8", "bytes": hx.Ints(b), "witness": wit, "got": got, "cfg": cfg})
				}
			}
		}
	}

	if prop == "C12" || prop == "" {
		n := 40
		if thorough {
			n = 400
		}
		for i := 0; i < n; i++ {
			seed := r.Bytes(32)
			if i == 0 {
				seed = make([]byte, 32)
			}
			priv := sNewKey(tr, seed)
			hs := sha512.Sum512(seed)
			var xpriv, xpub, viaPub []byte
			var ok bool
			if guard(tr, "EdPrivateKeyToX25519", func() { xpriv = x25519.EdPrivateKeyToX25519(priv) }) {
				continue
			}
			keyCopy := append([]byte{}, priv...)
			tr.Emit(map[string]interface{}{"op": "edpriv2x", "hs": hx.Ints(hs[:]), "out": hx.Ints(xpriv), "keyIntact": bytes.Equal(priv, keyCopy) && bytes.Equal(priv[:32], seed), "cfg": cfg})
			// the same key object again: a conversion must not consume or alter the key
			var xpriv2 []byte
			if !guard(tr, "EdPrivateKeyToX25519", func() { xpriv2 = x25519.EdPrivateKeyToX25519(priv) }) {
				tr.Emit(map[string]interface{}{"op": "edpriv2x", "hs": hx.Ints(hs[:]), "out": hx.Ints(xpriv2), "keyIntact": bytes.Equal(priv[:32], seed), "cfg": cfg})
			}
			var err error
			guard(tr, "X25519", func() { xpub, err = x25519.X25519(xpriv, x25519.Basepoint) })
			guard(tr, "EdPublicKeyToX25519", func() { viaPub, ok = x25519.EdPublicKeyToX25519(ed25519.PublicKey(priv[32:])) })
			exp := refmodel.X25519(xpriv, []byte{9, 0, 0, 0, 0, 0, 0, 0, 0, 0, 0, 0, 0, 0, 0, 0, 0, 0, 0, 0, 0, 0, 0, 0, 0, 0, 0, 0, 0, 0, 0, 0})
			tr.Emit(map[string]interface{}{"op": "x25519", "scalarLen": 32, "pointLen": 32, "scalar": hx.Ints(xpriv), "point": "Basepoint", "err": err != nil || !ok,
				"got": hx.Ints(xpub), "expected": hx.Ints(exp[:]), "fastEqGeneric": bytes.Equal(xpub, viaPub), "what": "commute: X25519(convPriv, B) = convPub(pub)", "cfg": cfg})
		}
	}

	if prop == "C11" || prop == "" {
		x25519Events(tr, r, thorough)
	}

	// ---- C02: the library's own public keys and R values, audited in TLA+ (no trust in refmodel's scalar mult) ---
	if prop == "C02" {
		nk := 2
		if thorough {
			nk = 12
		}
		for i := 0; i < nk; i++ {
			seed := r.Bytes(32)
			if i == 0 {
				seed = make([]byte, 32)
			}
			priv := sNewKey(tr, seed)
			hs := sha512.Sum512(seed)
			a := new(big.Int).Mod(refmodel.Clamp(hs[:32]), refmodel.L)
			di := refmodel.Decode(priv[32:])
			if di.OK {
				_, wit := witnessOf(di)
				tr.Emit(map[string]interface{}{"op": "audit-iso", "bytes": hx.Ints(priv[32:]), "k": hx.Ints(refmodel.LE(a, 32)), "t": 0, "witness": wit, "what": "public key = Enc([a]B)", "cfg": cfg})
			} else {
				note(tr, "NewKeyFromSeed returned an undecodable public key")
			}
			msg := r.Bytes(33)
			sig, err := sSign(tr, priv, nil, msg, &ed25519.Options{})
			if err == nil && len(sig) == 64 {
				h := sha512.New()
				h.Write(hs[32:])
				h.Write(msg)
				rn := new(big.Int).Mod(refmodel.FromLE(h.Sum(nil)), refmodel.L)
				dr := refmodel.Decode(sig[:32])
				if dr.OK {
					_, wit := witnessOf(dr)
					tr.Emit(map[string]interface{}{"op": "audit-iso", "bytes": hx.Ints(sig[:32]), "k": hx.Ints(refmodel.LE(rn, 32)), "t": 0, "witness": wit, "what": "R = Enc([r]B)", "cfg": cfg})
				} else {
					note(tr, "Sign returned an undecodable R")
				}
			}
		}
	}

	// ---- audits (validated bit by bit as TLC behaviours) -----------------------------------
	na := 4
	if thorough {
		na = 24
	}
	if prop == "C10" || prop == "C09" || prop == "C16" || prop == "" {
		for i := 0; i < na; i++ {
			k, t := r.Scalar(), r.Intn(8)
			if i == 1 {
				k = big.NewInt(0)
			}
			p := hx.KT(k, t, i, "audit")
			di := refmodel.Decode(p.Bytes[:])
			_, wit := witnessOf(di)
			tr.Emit(map[string]interface{}{"op": "audit-iso", "bytes": hx.Ints(p.Bytes[:]), "k": hx.Ints(refmodel.LE(p.K, 32)), "t": p.T, "witness": wit, "cfg": cfg})
		}
	}
	if prop == "C11" || prop == "C12" || prop == "" {
		for i := 0; i < na; i++ {
			s := r.Bytes(32)
			u := r.Bytes(32) // curve or twist: the ladder does not care
			if i%3 == 0 {
				u = []byte{9, 0, 0, 0, 0, 0, 0, 0, 0, 0, 0, 0, 0, 0, 0, 0, 0, 0, 0, 0, 0, 0, 0, 0, 0, 0, 0, 0, 0, 0, 0, 0}
			}
			var got []byte
			var err error
			if i%3 == 0 {
				guard(tr, "X25519", func() { got, err = x25519.X25519(s, x25519.Basepoint) })
			} else {
				guard(tr, "X25519", func() { got, err = x25519.X25519(s, u) })
			}
			if err != nil || got == nil {
				continue
			}
			tr.Emit(map[string]interface{}{"op": "audit-ladder", "scalar": hx.Ints(s), "u": hx.Ints(u), "out": hx.Ints(got), "fast": i%3 == 0, "cfg": cfg})
		}
	}
	fmt.Printf("events=%d\n", tr.Count())
}

// craftResult returns a scalar and an input point whose X25519 value is the given u (which must be the u-coordinate of
// a point of the prime-order subgroup): the input is u([k^-1] R) with k the clamped scalar.
func craftResult(r *hx.Rng, rU *big.Int) (sc, uin []byte, ok bool) {
	// Edwards y of the target: (u - 1)/(u + 1)
	den := refmodel.Fadd(rU, big.NewInt(1))
	if den.Sign() == 0 {
		return nil, nil, false
	}
	y := refmodel.Fmul(refmodel.Fsub(rU, big.NewInt(1)), refmodel.Finv(den))
	yb := refmodel.LE32(y)
	di := refmodel.Decode(yb[:])
	if !di.OK || !di.Pt.Mul(refmodel.L).IsIdentity() || di.Pt.IsIdentity() {
		return nil, nil, false
	}
	sc = r.Bytes(32)
	k := new(big.Int).Mod(refmodel.Clamp(sc), refmodel.L)
	if k.Sign() == 0 {
		return nil, nil, false
	}
	kinv := new(big.Int).ModInverse(k, refmodel.L)
	_, yq := di.Pt.Mul(kinv).Affine()
	uin = refmodel.LE(refmodel.EdYToMontU(yq), 32)
	if exp := refmodel.X25519(sc, uin); refmodel.FromLE(exp[:]).Cmp(rU) != 0 {
		panic("structured result construction")
	}
	return sc, uin, true
}

func x25519Events(tr *hx.Trace, r *hx.Rng, thorough bool) {
	nine := []byte{9, 0, 0, 0, 0, 0, 0, 0, 0, 0, 0, 0, 0, 0, 0, 0, 0, 0, 0, 0, 0, 0, 0, 0, 0, 0, 0, 0, 0, 0, 0, 0}
	cfg := *fCfg
	emit := func(scalar, point []byte, pname string) {
		var got []byte
		var err error
		usePoint := point
		if pname == "Basepoint" {
			usePoint = x25519.Basepoint
		}
		if guard(tr, "X25519", func() { got, err = x25519.X25519(scalar, usePoint) }) {
			return
		}
		exp := make([]byte, 32)
		fast := true
		if len(scalar) == 32 && len(point) == 32 {
			e := refmodel.X25519(scalar, point)
			exp = e[:]
			if pname == "Basepoint" {
				// the same scalar through the generic path (a copy of the base point) and the array API
				var g []byte
				var sb, sm, in, base [32]byte
				copy(in[:], scalar)
				copy(base[:], nine)
				guard(tr, "X25519", func() { g, _ = x25519.X25519(scalar, append([]byte{}, nine...)) })
				guard(tr, "ScalarBaseMult", func() { x25519.ScalarBaseMult(&sb, &in) })
				guard(tr, "ScalarMult", func() { x25519.ScalarMult(&sm, &in, &base) })
				fast = bytes.Equal(g, got) && bytes.Equal(sb[:], got) && bytes.Equal(sm[:], got)
			} else {
				// the array API on the same generic point: the RFC 7748 value (all-zero for low-order points), canonical
				var sm, in, pt [32]byte
				copy(in[:], scalar)
				copy(pt[:], point)
				if !guard(tr, "ScalarMult", func() { x25519.ScalarMult(&sm, &in, &pt) }) {
					fast = bytes.Equal(sm[:], exp)
				}
			}
		}
		if got == nil {
			got = []byte{}
		}
		tr.Emit(map[string]interface{}{"op": "x25519", "scalarLen": len(scalar), "pointLen": len(point), "scalar": hx.Ints(scalar), "point": pname,
			"err": err != nil, "got": hx.Ints(got), "expected": hx.Ints(exp), "fastEqGeneric": fast, "what": "", "cfg": cfg})
	}
	// digit patterns of the signed radix-16 recoding: every nibble value at every position with
	// neighbours 0 / 7 / 8 / 15 (carry runs), on the base-point fast path
	step := 5
	if thorough {
		step = 1
	}
	cnt := 0
	for pos := 0; pos < 64; pos++ {
		for v := 0; v < 16; v++ {
			for _, nb := range []byte{0x00, 0x77, 0x88, 0xff} {
				cnt++
				if cnt%step != 0 {
					continue
				}
				s := bytes.Repeat([]byte{nb}, 32)
				if pos%2 == 0 {
					s[pos/2] = s[pos/2]&0xf0 | byte(v)
				} else {
					s[pos/2] = s[pos/2]&0x0f | byte(v)<<4
				}
				emit(s, nine, "Basepoint")
			}
		}
	}
	// unclamped variants of the low 3 and high 2 bits, values >= L, all ones, zero
	base := r.Bytes(32)
	for lo := 0; lo < 8; lo++ {
		for hi := 0; hi < 4; hi++ {
			s := append([]byte{}, base...)
			s[0] = s[0]&0xf8 | byte(lo)
			s[31] = s[31]&0x3f | byte(hi)<<6
			emit(s, nine, "Basepoint")
		}
	}
	for _, s := range [][]byte{make([]byte, 32), bytes.Repeat([]byte{0xff}, 32), refmodel.LE(refmodel.L, 32), refmodel.LE(new(big.Int).Sub(refmodel.L, big.NewInt(1)), 32),
		refmodel.LE(new(big.Int).Lsh(refmodel.L, 2), 32)} {
		emit(s, nine, "Basepoint")
		emit(s, nine, "copy9")
	}
	n := 60
	if thorough {
		n = 1500
	}
	for i := 0; i < n; i++ {
		s := r.Bytes(32)
		emit(s, nine, "Basepoint")
		// generic points: curve points of known discrete log, arbitrary u (curve or twist), u >= p, bit 255 set
		u := r.Bytes(32)
		switch i % 4 {
		case 1:
			y := refmodel.FromKT(r.Scalar(), 0)
			_, yy := y.Affine()
			u = refmodel.LE(refmodel.EdYToMontU(yy), 32)
		case 2:
			u = refmodel.LE(new(big.Int).Add(refmodel.P, big.NewInt(int64(r.Intn(19)))), 32)
		case 3:
			u[31] |= 0x80
		}
		emit(s, u, "generic")
	}
	// structured RESULTS: input points constructed so that the correct output has its low / high bytes all
	// zero (u = c 2^192, c 2^128, c 2^64, c < 2^64, ...): a zero test that looks at part of the output only
	// would report a low-order point.  For a target r on the curve and in the prime-order subgroup the input
	// is u([k^-1] R) with k the clamped scalar.
	for _, shift := range []uint{192, 128, 64, 0, 200, 248} {
		found := 0
		for c := int64(1); c < 4000 && found < 2; c++ {
			rU := new(big.Int).Lsh(big.NewInt(c), shift)
			if rU.Cmp(refmodel.P) >= 0 {
				break
			}
			sc, uin, ok := craftResult(r, rU)
			if !ok {
				continue
			}
			emit(sc, uin, fmt.Sprintf("result=c*2^%d", shift))
			found++
		}
	}
	// every result below 19 that is reachable (u and u + p are both 255-bit strings: the output must be the canonical one)
	for c := int64(1); c < 19; c++ {
		if sc, uin, ok := craftResult(r, big.NewInt(c)); ok {
			emit(sc, uin, fmt.Sprintf("result=%d", c))
		}
	}
	// sub-slices of the exported base-point slice (same first element, wrong length) must be length errors
	for _, n := range []int{0, 1, 5, 31} {
		var got []byte
		var err error
		sc := r.Bytes(32)
		if !guard(tr, "X25519", func() { got, err = x25519.X25519(sc, x25519.Basepoint[:n]) }) {
			if got == nil {
				got = []byte{}
			}
			tr.Emit(map[string]interface{}{"op": "x25519", "scalarLen": 32, "pointLen": n, "scalar": hx.Ints(sc), "point": fmt.Sprintf("Basepoint[:%d]", n),
				"err": err != nil, "got": hx.Ints(got), "expected": hx.Ints(make([]byte, 32)), "fastEqGeneric": true, "what": "", "cfg": cfg})
		}
	}
	// points that differ from the base point in a single bit (a sloppy "is this the base point" test would take the fast path)
	for bit := 0; bit < 256; bit++ {
		u := append([]byte{}, nine...)
		u[bit/8] ^= 1 << uint(bit%8)
		emit(r.Bytes(32), u, "base-point-bitflip")
	}
	for _, lo := range lowOrderU {
		emit(r.Bytes(32), lo, "low-order")
		hi := append([]byte{}, lo...)
		hi[31] |= 0x80
		emit(r.Bytes(32), hi, "low-order|bit255")
	}
	for _, ln := range []int{0, 1, 31, 33, 64} {
		emit(r.Bytes(ln), nine, "generic")
		emit(r.Bytes(32), r.Bytes(ln), "generic")
		emit(r.Bytes(ln), nine, "Basepoint")
	}
}
