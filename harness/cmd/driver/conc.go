package main

import (
	"bufio"
	"bytes"
	"crypto"
	stded "crypto/ed25519"
	"crypto/sha256"
	"encoding/json"
	"fmt"
	"os"
	"sync"

	"github.com/oasisprotocol/ed25519"
	"github.com/oasisprotocol/ed25519/extra/x25519"
	"github.com/oasisprotocol/ed25519/internal/ge25519"
	"github.com/oasisprotocol/ed25519/verifharness/hx"
	"github.com/oasisprotocol/ed25519/verifharness/refmodel"
)

func init() { families["conc"] = runConc }

// globalsDigest hashes every package-level variable the library reads.
func globalsDigest() [32]byte {
	h := sha256.New()
	save, y := ed25519.VerifTestBatchState()
	if save {
		h.Write([]byte{1})
	}
	h.Write(y[:])
	h.Write(x25519.Basepoint)
	fmt.Fprintf(h, "%p/%d/%d", &x25519.Basepoint[0], len(x25519.Basepoint), cap(x25519.Basepoint))
	var bp [32]byte
	b := ge25519.Basepoint
	ge25519.Pack(bp[:], &b)
	h.Write(bp[:])
	for i := range ge25519.NielsBaseMultiples {
		h.Write(ge25519.NielsBaseMultiples[i][:])
	}
	d, d2, s := ge25519.VerifConstants()
	fmt.Fprintf(h, "%v%v%v", d, d2, s)
	for i := 0; i < 32; i++ {
		n := ge25519.VerifNielsSlidingMultiple(i)
		fmt.Fprintf(h, "%v", n)
	}
	var out [32]byte
	h.Sum(out[:0])
	return out
}

type cbatch struct {
	keys       []ed25519.PublicKey
	msgs, sigs [][]byte
	opts       *ed25519.Options
}

func mkBatch(r *hx.Rng, n int, variant string, bad []int) cbatch {
	o := newOptSet(variant, r, 16)
	so := refmodel.SmallOrderEncodings()
	b := cbatch{opts: o.opts(false)}
	for i := 0; i < n; i++ {
		e := o.pool[r.Intn(len(o.pool))]
		for _, p := range bad {
			if p == i {
				e = mutate(o, e, []string{"wrongMsg", "SplusL", "flipS", "truncSig"}[i%4], r, so)
			}
		}
		b.keys, b.msgs, b.sigs = append(b.keys, e.key), append(b.msgs, e.msg), append(b.sigs, e.sig)
	}
	return b
}

func batchResult(ok bool, valid []bool, err error) []byte {
	out := []byte{0}
	if ok {
		out[0] = 1
	}
	for _, v := range valid {
		if v {
			out = append(out, 1)
		} else {
			out = append(out, 0)
		}
	}
	if err != nil {
		out = append(out, []byte(err.Error())...)
	}
	return out
}

// gateReader blocks every entropy read (= every chunk boundary of VerifyBatch) until the scheduler grants it.
type gateReader struct {
	rng   *hx.Rng
	grant chan struct{}
	event chan string
}

func (g *gateReader) Read(p []byte) (int, error) {
	g.event <- "blocked"
	<-g.grant
	g.rng.Read(p)
	return len(p), nil
}

func runConc() {
	r := hx.NewRng(*fSeed)
	tr := hx.NewTrace(*fOut)
	defer tr.Close()
	thorough := *fTier == "thorough"
	cfg := *fCfg
	g0 := globalsDigest()
	emit := func(call, context string, res []byte) {
		if len(res) > 64 {
			h := sha256.Sum256(res)
			res = h[:]
		}
		tr.Emit(map[string]interface{}{"op": "call", "call": call, "context": context, "res": hx.Ints(res), "globalsOk": globalsDigest() == g0, "cfg": cfg})
	}

	// ---- the operation alphabet -----------------------------------------------------------
	seed := r.Bytes(32)
	priv := ed25519.NewKeyFromSeed(seed)
	pub := ed25519.PublicKey(priv[32:])
	msg := r.Bytes(100)
	sig := ed25519.Sign(priv, msg)
	badSig := append([]byte{}, sig...)
	badSig[40] ^= 1
	digest := r.Bytes(64)
	b70 := mkBatch(r, 70, "pure", nil)
	b130 := mkBatch(r, 130, "ctx", []int{3, 64, 129})
	b5 := mkBatch(r, 5, "ph", []int{1})
	scalar, upoint := r.Bytes(32), r.Bytes(32)
	// signatures under ctx "x" and ph "x" by the toolchain's implementation (independent of the library's state)
	stdPriv := stded.NewKeyFromSeed(seed)
	sigCtxX, _ := stdPriv.Sign(nil, digest, &stded.Options{Context: "x"})
	sigPhX, _ := stdPriv.Sign(nil, digest, &stded.Options{Hash: crypto.SHA512, Context: "x"})
	var bx struct {
		keys               []ed25519.PublicKey
		msgs, sigs, sigsPh [][]byte
	}
	for i := 0; i < 4; i++ {
		k := stded.NewKeyFromSeed(r.Bytes(32))
		m := r.Bytes(64)
		s1, _ := k.Sign(nil, m, &stded.Options{Context: "x"})
		s2, _ := k.Sign(nil, m, &stded.Options{Hash: crypto.SHA512, Context: "x"})
		bx.keys, bx.msgs, bx.sigs, bx.sigsPh = append(bx.keys, ed25519.PublicKey(k[32:])), append(bx.msgs, m), append(bx.sigs, s1), append(bx.sigsPh, s2)
	}
	priv2 := ed25519.NewKeyFromSeed(r.Bytes(32))
	pub2 := ed25519.PublicKey(priv2[32:])
	msg2 := r.Bytes(100)
	sp2 := stded.NewKeyFromSeed(priv2[:32])
	sigKey2 := stded.Sign(sp2, msg)
	sigMsg2 := stded.Sign(stdPriv, msg2)
	type opfn func() []byte
	bseed := r.Int63()
	ops := map[string]opfn{
		"Verify/valid":   func() []byte { return []byte{b2i(ed25519.Verify(pub, msg, sig))} },
		"Verify/invalid": func() []byte { return []byte{b2i(ed25519.Verify(pub, msg, badSig))} },
		"Verify/panic": func() (out []byte) {
			defer func() { out = []byte(fmt.Sprint(recover())) }()
			ed25519.Verify(pub[:31], msg, sig)
			return nil
		},
		"VerifyZIP/valid": func() []byte {
			return []byte{b2i(ed25519.VerifyWithOptions(pub, msg, sig, &ed25519.Options{ZIP215Verify: true}))}
		},
		"Sign/pure": func() []byte { return ed25519.Sign(priv, msg) },
		"Sign/ph": func() []byte {
			s, _ := priv.Sign(nil, digest, &ed25519.Options{Hash: crypto.SHA512, Context: "x"})
			return s
		},
		// operations that share PART of their arguments (same context, different variant; same key, different
		// message): a cache keyed on part of the input would make the second call depend on the first
		"Sign/ctx:x":       func() []byte { s, _ := priv.Sign(nil, digest, &ed25519.Options{Context: "x"}); return s },
		"Sign/ctx:y":       func() []byte { s, _ := priv.Sign(nil, digest, &ed25519.Options{Context: "y"}); return s },
		"Sign/pure:digest": func() []byte { return ed25519.Sign(priv, digest) },
		"Verify/ctx:x": func() []byte {
			return []byte{b2i(ed25519.VerifyWithOptions(pub, digest, sigCtxX, &ed25519.Options{Context: "x"}))}
		},
		"Verify/ph:x": func() []byte {
			return []byte{b2i(ed25519.VerifyWithOptions(pub, digest, sigPhX, &ed25519.Options{Hash: crypto.SHA512, Context: "x"}))}
		},
		"Verify/ph:x-on-ctx-sig": func() []byte {
			return []byte{b2i(ed25519.VerifyWithOptions(pub, digest, sigCtxX, &ed25519.Options{Hash: crypto.SHA512, Context: "x"}))}
		},
		"Batch/4-ctx:x": func() []byte {
			return batchResult(ed25519.VerifyBatch(hx.NewRng(bseed), bx.keys, bx.msgs, bx.sigs, &ed25519.Options{Context: "x"}))
		},
		"Batch/4-ph:x": func() []byte {
			return batchResult(ed25519.VerifyBatch(hx.NewRng(bseed), bx.keys, bx.msgs, bx.sigsPh, &ed25519.Options{Hash: crypto.SHA512, Context: "x"}))
		},
		"Verify/valid-msg2":   func() []byte { return []byte{b2i(ed25519.Verify(pub, msg2, sigMsg2))} },
		"Verify/valid-key2":   func() []byte { return []byte{b2i(ed25519.Verify(pub2, msg, sigKey2))} },
		"Verify/key2-on-sig1": func() []byte { return []byte{b2i(ed25519.Verify(pub2, msg, sig))} },
		"Batch/6-prefix-of-70": func() []byte {
			return batchResult(ed25519.VerifyBatch(hx.NewRng(bseed), b70.keys[:6], b70.msgs[:6], b70.sigs[:6], b70.opts))
		},
		"Batch/66-prefix-of-130": func() []byte {
			return batchResult(ed25519.VerifyBatch(hx.NewRng(bseed), b130.keys[:66], b130.msgs[:66], b130.sigs[:66], b130.opts))
		},
		"X25519/base2": func() []byte { o, _ := x25519.X25519(upoint, x25519.Basepoint); return o },
		"Convert/key2": func() []byte {
			a := x25519.EdPrivateKeyToX25519(priv2)
			b, _ := x25519.EdPublicKeyToX25519(pub2)
			return append(a, b...)
		},
		"Batch/5-nilrand":  func() []byte { return batchResult(ed25519.VerifyBatch(nil, b5.keys, b5.msgs, b5.sigs, b5.opts)) },
		"Batch/70-nilrand": func() []byte { return batchResult(ed25519.VerifyBatch(nil, b70.keys, b70.msgs, b70.sigs, b70.opts)) },
		"Batch/70-valid": func() []byte {
			return batchResult(ed25519.VerifyBatch(hx.NewRng(bseed), b70.keys, b70.msgs, b70.sigs, b70.opts))
		},
		"Batch/130-mixed": func() []byte {
			return batchResult(ed25519.VerifyBatch(hx.NewRng(bseed), b130.keys, b130.msgs, b130.sigs, b130.opts))
		},
		"Batch/5-ph": func() []byte {
			return batchResult(ed25519.VerifyBatch(hx.NewRng(bseed), b5.keys, b5.msgs, b5.sigs, b5.opts))
		},
		"Batch/err": func() []byte {
			return batchResult(ed25519.VerifyBatch(hx.NewRng(bseed), b5.keys, b5.msgs, b5.sigs, &ed25519.Options{Context: string(make([]byte, 300))}))
		},
		"X25519/base":    func() []byte { o, _ := x25519.X25519(scalar, x25519.Basepoint); return o },
		"X25519/generic": func() []byte { o, _ := x25519.X25519(scalar, upoint); return o },
		"X25519/loworder": func() []byte {
			_, err := x25519.X25519(scalar, make([]byte, 32))
			return []byte(fmt.Sprint(err))
		},
		"GenerateKey":    func() []byte { p, k, _ := ed25519.GenerateKey(bytes.NewReader(seed)); return append(p, k...) },
		"NewKeyFromSeed": func() []byte { return ed25519.NewKeyFromSeed(seed) },
		"Convert": func() []byte {
			a := x25519.EdPrivateKeyToX25519(priv)
			b, _ := x25519.EdPublicKeyToX25519(pub)
			return append(a, b...)
		},
	}
	// operations that pass their arguments in buffers the caller REUSES for other values between calls (a result must
	// depend on the bytes passed, not on the identity of the slice); only used sequentially - the buffers are the harness' own
	keyBuf, msgBuf, sigBuf := make([]byte, 32), make([]byte, 100), make([]byte, 64)
	seqOnly := map[string]bool{}
	for _, v := range []struct {
		name    string
		k, m, s []byte
	}{{"Verify/buf:key1", pub, msg, sig}, {"Verify/buf:key2", pub2, msg, sigKey2}, {"Verify/buf:msg2", pub, msg2, sigMsg2}, {"Verify/buf:key2-sig1", pub2, msg, sig}} {
		v := v
		seqOnly[v.name] = true
		ops[v.name] = func() []byte {
			copy(keyBuf, v.k)
			copy(msgBuf, v.m)
			copy(sigBuf, v.s)
			return []byte{b2i(ed25519.Verify(keyBuf, msgBuf, sigBuf)), b2i(ed25519.VerifyWithOptions(keyBuf, msgBuf, sigBuf, &ed25519.Options{ZIP215Verify: true}))}
		}
	}
	var names []string
	for k := range ops {
		names = append(names, k)
	}
	sortStrings(names)
	for _, n := range names {
		emit(n, "solo", ops[n]())
	}
	// ---- sequential histories: every ordered pair (and seeded triples) --------------------
	for _, a := range names {
		for _, b := range names {
			ops[a]()
			emit(b, "after:"+a, ops[b]())
		}
	}
	nt := 40
	if thorough {
		nt = 600
	}
	for i := 0; i < nt; i++ {
		a, b, c := names[r.Intn(len(names))], names[r.Intn(len(names))], names[r.Intn(len(names))]
		ops[a]()
		ops[b]()
		emit(c, "after:"+a+";"+b, ops[c]())
	}

	// ---- gated schedules generated by TLC from Conc.tla ------------------------------------
	if *fCases != "" {
		type sc struct {
			Steps []int `json:"steps"`
			Sched []int `json:"sched"`
		}
		f, err := os.Open(*fCases)
		if err != nil {
			panic(err)
		}
		var scheds []sc
		s := bufio.NewScanner(f)
		for s.Scan() {
			var x sc
			if json.Unmarshal(s.Bytes(), &x) == nil {
				scheds = append(scheds, x)
			}
		}
		f.Close()
		// batches per (client, number of chunk steps); solo results first
		type cb struct {
			b    cbatch
			seed int64
			solo []byte
		}
		pool := map[string]*cb{}
		get := func(c, steps int) *cb {
			k := fmt.Sprintf("%d/%d", c, steps)
			if x, ok := pool[k]; ok {
				return x
			}
			n := 64*(steps-1) + 6
			bad := []int{}
			if c%2 == 0 {
				bad = []int{1, n - 1} // first and last chunk fall back
			}
			x := &cb{b: mkBatch(r, n, []string{"pure", "ctx", "ph"}[c%3], bad), seed: r.Int63()}
			x.solo = batchResult(ed25519.VerifyBatch(hx.NewRng(x.seed), x.b.keys, x.b.msgs, x.b.sigs, x.b.opts))
			pool[k] = x
			emit("sched-batch/"+k, "solo", x.solo)
			return x
		}
		stepN := 9
		if thorough {
			stepN = 1
		}
		for si := int(*fSeed) % stepN; si < len(scheds); si += stepN {
			x := scheds[si]
			nc := len(x.Steps)
			gates := make([]*gateReader, nc)
			results := make([][]byte, nc)
			var wg sync.WaitGroup
			for c := 0; c < nc; c++ {
				cbx := get(c+1, x.Steps[c])
				gates[c] = &gateReader{rng: hx.NewRng(cbx.seed), grant: make(chan struct{}), event: make(chan string, 1)}
				wg.Add(1)
				go func(c int, cbx *cb) {
					defer wg.Done()
					results[c] = batchResult(ed25519.VerifyBatch(gates[c], cbx.b.keys, cbx.b.msgs, cbx.b.sigs, cbx.b.opts))
					gates[c].event <- "done"
				}(c, cbx)
			}
			for c := 0; c < nc; c++ { // every client waits at its first chunk
				<-gates[c].event
			}
			okSched := true
			for _, c := range x.Sched {
				gates[c-1].grant <- struct{}{}
				ev := <-gates[c-1].event
				_ = ev
			}
			wg.Wait()
			for c := 0; c < nc; c++ {
				emit(fmt.Sprintf("sched-batch/%d/%d", c+1, x.Steps[c]), fmt.Sprintf("sched:%v", x.Sched), results[c])
			}
			_ = okSched
		}
	}

	// ---- free-running goroutines (run under the race detector by the orchestrator) ---------
	// Option objects SHARED by all goroutines and never used before (a library that writes into the caller's Options, e.g. to
	// memoise something on first use, races exactly then)
	shCtx := &ed25519.Options{Context: "shared-context"}
	shPh := &ed25519.Options{Hash: crypto.SHA512, Context: "shared-context"}
	shZip := &ed25519.Options{ZIP215Verify: true}
	sigShCtx, _ := stdPriv.Sign(nil, digest, &stded.Options{Context: "shared-context"})
	sigShPh, _ := stdPriv.Sign(nil, digest, &stded.Options{Hash: crypto.SHA512, Context: "shared-context"})
	ops["Shared/sign-ctx"] = func() []byte { s, _ := priv.Sign(nil, digest, shCtx); return s }
	ops["Shared/sign-ph"] = func() []byte { s, _ := priv.Sign(nil, digest, shPh); return s }
	ops["Shared/verify-ctx"] = func() []byte { return []byte{b2i(ed25519.VerifyWithOptions(pub, digest, sigShCtx, shCtx))} }
	ops["Shared/verify-ph"] = func() []byte { return []byte{b2i(ed25519.VerifyWithOptions(pub, digest, sigShPh, shPh))} }
	ops["Shared/verify-zip"] = func() []byte { return []byte{b2i(ed25519.VerifyWithOptions(pub, msg, sig, shZip))} }
	ops["Shared/batch-zip"] = func() []byte {
		return batchResult(ed25519.VerifyBatch(nil, b70.keys[:5], b70.msgs[:5], b70.sigs[:5], shZip))
	}
	shared := []string{"Shared/sign-ctx", "Shared/sign-ph", "Shared/verify-ctx", "Shared/verify-ph", "Shared/verify-zip", "Shared/batch-zip"}
	// their solo results come from equivalent calls with private Options objects
	emit("Shared/sign-ctx", "solo", func() []byte { s, _ := priv.Sign(nil, digest, &ed25519.Options{Context: "shared-context"}); return s }())
	emit("Shared/sign-ph", "solo", func() []byte {
		s, _ := priv.Sign(nil, digest, &ed25519.Options{Hash: crypto.SHA512, Context: "shared-context"})
		return s
	}())
	emit("Shared/verify-ctx", "solo", []byte{b2i(ed25519.VerifyWithOptions(pub, digest, sigShCtx, &ed25519.Options{Context: "shared-context"}))})
	emit("Shared/verify-ph", "solo", []byte{b2i(ed25519.VerifyWithOptions(pub, digest, sigShPh, &ed25519.Options{Hash: crypto.SHA512, Context: "shared-context"}))})
	emit("Shared/verify-zip", "solo", []byte{b2i(ed25519.VerifyWithOptions(pub, msg, sig, &ed25519.Options{ZIP215Verify: true}))})
	emit("Shared/batch-zip", "solo", batchResult(ed25519.VerifyBatch(nil, b70.keys[:5], b70.msgs[:5], b70.sigs[:5], &ed25519.Options{ZIP215Verify: true})))
	var concNames []string
	for _, n := range names {
		if !seqOnly[n] {
			concNames = append(concNames, n)
		}
	}
	concNames = append(concNames, shared...)
	concNames = append(concNames, shared...) // weight
	G, per := 16, 12
	if thorough {
		per = 60
	}
	var wg sync.WaitGroup
	type rec struct {
		name string
		res  []byte
		g    int
	}
	out := make([][]rec, G)
	seeds := make([]int64, G)
	for g := range seeds {
		seeds[g] = r.Int63()
	}
	for g := 0; g < G; g++ {
		wg.Add(1)
		go func(g int) {
			defer wg.Done()
			gr := hx.NewRng(seeds[g])
			// every goroutine starts with the shared-options operations, so that their FIRST uses are concurrent
			for i := 0; i < per; i++ {
				n := concNames[gr.Intn(len(concNames))]
				if i < 2 {
					n = shared[(g+i)%len(shared)]
				}
				out[g] = append(out[g], rec{n, ops[n](), g})
			}
		}(g)
	}
	wg.Wait()
	for g := 0; g < G; g++ {
		for _, x := range out[g] {
			emit(x.name, fmt.Sprintf("concurrent:g%d", x.g), x.res)
		}
	}
	// every operation against ITSELF: four goroutines released together run the same operation on the same shared arguments
	// (a write to a caller-supplied input, or to state keyed by it, is a write-write race here whatever the rest of the mix does)
	sortStrings(concNames)
	for i, n := range concNames {
		if i > 0 && concNames[i-1] == n {
			continue
		}
		const K = 4
		res := make([][][]byte, K)
		start := make(chan struct{})
		var wg2 sync.WaitGroup
		for g := 0; g < K; g++ {
			wg2.Add(1)
			go func(g int) {
				defer wg2.Done()
				<-start
				for rep := 0; rep < 3; rep++ {
					res[g] = append(res[g], ops[n]())
				}
			}(g)
		}
		close(start)
		wg2.Wait()
		for g := 0; g < K; g++ {
			for _, x := range res[g] {
				emit(n, fmt.Sprintf("concurrent:self%d", g), x)
			}
		}
	}
	fmt.Printf("events=%d\n", tr.Count())
}

func b2i(b bool) byte {
	if b {
		return 1
	}
	return 0
}

func sortStrings(a []string) {
	for i := 1; i < len(a); i++ {
		for j := i; j > 0 && a[j] < a[j-1]; j-- {
			a[j], a[j-1] = a[j-1], a[j]
		}
	}
}
