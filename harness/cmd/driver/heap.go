package main

import (
	"fmt"
	"io"
	"math/big"

	"github.com/oasisprotocol/ed25519"
	"github.com/oasisprotocol/ed25519/internal/ge25519"
	"github.com/oasisprotocol/ed25519/internal/modm"
	"github.com/oasisprotocol/ed25519/verifharness/hx"
	"github.com/oasisprotocol/ed25519/verifharness/refmodel"
)

func init() { families["heap"] = runHeap }

type heapRec struct {
	count   int
	scalars [][]int
	hevs    [][]interface{}
	started bool
}

func scalarBytes(s *modm.Bignum256) []byte {
	out := make([]byte, 32)
	modm.Contract(out, s)
	return out
}

func ptDesc(k *big.Int, t int) map[string]interface{} {
	return map[string]interface{}{"k": hx.Ints(refmodel.LE(new(big.Int).Mod(k, refmodel.L), 32)), "t": ((t % 8) + 8) % 8}
}

func negK(k *big.Int) *big.Int { return new(big.Int).Mod(new(big.Int).Neg(k), refmodel.L) }

func heapConsts() map[string]interface{} {
	return map[string]interface{}{"bpl": modm.BitsPerLimb, "nlimbs": modm.LimbSize, "limb128": ed25519.VerifLimb128bits}
}

func runHeap() {
	r := hx.NewRng(*fSeed)
	thorough := *fTier == "thorough"
	nsh := *fShards
	traces := make([]*hx.Trace, nsh)
	for i := range traces {
		traces[i] = hx.NewTrace(fmt.Sprintf("%s.%d", *fOut, i))
	}
	nEmit := 0
	emit := func(ev map[string]interface{}) {
		for k, v := range heapConsts() {
			ev[k] = v
		}
		ev["op"], ev["cfg"] = "heap", *fCfg
		traces[nEmit%nsh].Emit(ev)
		nEmit++
	}

	// ---- (1) through VerifyBatch: every chunk of real calls -------------------------------
	var cur *heapRec
	var recs []*heapRec
	var curCount int
	ed25519.VerifBatchHook = func(call io.Reader, ev, a, b int) {
		if ev == ed25519.VerifEvChunkBegin {
			curCount = 2*b + 1
			cur = &heapRec{count: curCount}
			recs = append(recs, cur)
		}
		if ev == ed25519.VerifEvEquation {
			cur.hevs = append(cur.hevs, []interface{}{"eqn", a})
		}
	}
	ed25519.VerifHeapHook = func(h *ed25519.VerifBatchHeap, phase, max1, max2, limbSize int, extended bool) {
		if cur == nil {
			return
		}
		if !cur.started {
			cur.started = true
			for i := 0; i < cur.count; i++ {
				cur.scalars = append(cur.scalars, hx.Ints(scalarBytes(h.VerifScalar(i))))
			}
		}
		cur.hevs = append(cur.hevs, []interface{}{phase, max1, max2, limbSize, extended})
	}
	so := refmodel.SmallOrderEncodings()
	sets := map[string]*optSet{}
	for _, v := range []string{"pure", "ctx", "ph"} {
		sets[v] = newOptSet(v, r, 80)
	}
	sizes := []int{4, 5, 6, 7, 8, 9, 13, 16, 31, 69} // 69 = a full 64-entry chunk followed by a 5-entry chunk on the same scratch heap
	if thorough {
		sizes = nil
		for n := 4; n <= 70; n++ {
			sizes = append(sizes, n)
		}
		sizes = append(sizes, 128, 131, 200)
	}
	for _, n := range sizes {
		for rep := 0; rep < 2; rep++ {
			o := sets[[]string{"pure", "ctx", "ph"}[r.Intn(3)]]
			entries := make([]*bEntry, n)
			for i := range entries {
				entries[i] = o.pool[r.Intn(len(o.pool))]
			}
			flavour := "all-valid"
			if rep == 1 {
				// decorate: mixed-order key/R, repeated entries, one S+L entry (marked, still in the equation),
				// and (ZIP-215) small-order keys
				flavour = "decorated"
				entries[0] = mutate(o, entries[0], "mixedA", r, so)
				entries[n-1] = mutate(o, entries[n-1], "mixedR", r, so)
				entries[1] = entries[2]
				entries[n/2] = mutate(o, entries[n/2], "SplusL", r, so)
				if n > 5 {
					entries[3] = mutate(o, entries[3], "smallA", r, so)
				}
			}
			keys := make([]ed25519.PublicKey, n)
			msgs := make([][]byte, n)
			sigs := make([][]byte, n)
			for i, e := range entries {
				keys[i], msgs[i], sigs[i] = e.key, e.msg, e.sig
			}
			recs, cur = nil, nil
			entropy := "random"
			rr := &recReader{mode: entropy, rng: r}
			if rep == 0 && n%3 == 0 {
				rr.mode, entropy = "zero", "zero"
			}
			var err error
			watch(traces[0], "VerifyBatch (all-valid batch)", func() { _, _, err = ed25519.VerifyBatch(rr, keys, msgs, sigs, o.opts(true)) })
			if err != nil {
				panic(err)
			}
			off := 0
			for c, rec := range recs {
				bs := (rec.count - 1) / 2
				if !rec.started {
					off += bs
					continue
				}
				pts := []map[string]interface{}{ptDesc(big.NewInt(1), 0)}
				known := true
				for i := 0; i < bs; i++ {
					known = known && entries[off+i].A.Known && entries[off+i].A.Dec
					pts = append(pts, ptDesc(negK(entries[off+i].A.K), -entries[off+i].A.T))
				}
				for i := 0; i < bs; i++ {
					known = known && entries[off+i].R.Known && entries[off+i].R.Dec
					pts = append(pts, ptDesc(negK(entries[off+i].R.K), -entries[off+i].R.T))
				}
				var hevs [][]interface{}
				eqn, hasEqn := false, false
				for _, h := range rec.hevs {
					if s, ok := h[0].(string); ok && s == "eqn" {
						eqn, hasEqn = h[1].(int) == 1, true
						continue
					}
					hevs = append(hevs, h)
				}
				if known {
					emit(map[string]interface{}{
						"via": "VerifyBatch", "flavour": flavour, "entropy": entropy, "chunk": c, "n": n,
						"count": rec.count, "scalars": rec.scalars, "points": pts, "hevs": hevs,
						"res": map[string]interface{}{"k": hx.Ints(make([]byte, 32)), "t": 0, "matches": true, "has": false},
						"eqn": eqn, "hasEqn": hasEqn, "expectExact": entropy == "random",
					})
				}
				off += bs
			}
		}
	}
	ed25519.VerifBatchHook = nil

	// ---- (2) direct calls with chosen scalar magnitudes and points -----------------------
	var heap ed25519.VerifBatchHeap
	direct := func(bs int, flavour string) {
		count := 2*bs + 1
		ks := make([]*big.Int, count)
		ts := make([]int, count)
		pts := make([]ge25519.Ge25519, count)
		scs := make([]modm.Bignum256, count)
		svals := make([]*big.Int, count)
		for i := 0; i < count; i++ {
			ks[i], ts[i] = r.Scalar(), 0
			switch {
			case flavour == "mixed-order" && i%3 == 1:
				ts[i] = 1 + r.Intn(7)
			case flavour == "torsion-only" && i%4 == 2:
				ks[i], ts[i] = big.NewInt(0), 1+r.Intn(7)
			case flavour == "repeated" && i > 0 && i%2 == 0:
				ks[i], ts[i] = ks[i-1], ts[i-1]
			}
			if i == 0 {
				ks[i], ts[i] = big.NewInt(1), 0
			}
			if i <= bs {
				svals[i] = r.Scalar()
			} else {
				svals[i] = new(big.Int).Rsh(refmodel.FromLE(r.Bytes(16)), 0)
				if svals[i].Sign() == 0 {
					svals[i] = big.NewInt(1)
				}
			}
		}
		expectExact := true
		switch flavour {
		case "zero-randomisers":
			for i := bs + 1; i < count; i++ {
				if i%2 == 0 {
					svals[i] = big.NewInt(0)
				}
			}
			expectExact = false
		case "all-zero":
			for i := range svals {
				svals[i] = big.NewInt(0)
			}
			expectExact = false
		case "ones":
			for i := 1; i < count; i += 3 {
				svals[i] = big.NewInt(1)
			}
			expectExact = false
		case "equal-scalars":
			for i := 2; i <= bs; i++ {
				svals[i] = svals[1]
			}
			for i := bs + 2; i < count; i++ {
				svals[i] = svals[bs+1]
			}
			expectExact = false
		case "top-slice":
			// S >= 2^252 (below L) for the accumulated scalar and some products
			svals[0] = new(big.Int).Sub(refmodel.L, big.NewInt(int64(1+r.Intn(1000))))
			svals[1] = new(big.Int).SetBit(new(big.Int).Rsh(refmodel.FromLE(r.Bytes(15)), 0), 252, 1)
		case "small-big":
			for i := 1; i <= bs; i++ {
				svals[i] = new(big.Int).Rsh(svals[i], uint(r.Intn(12))) // (a much smaller scalar makes Bos-Coster take ~2^k steps)
			}
			expectExact = false
		case "common-factor", "common-factor-big":
			// every scalar a multiple of f: the Bos-Coster remainder is (a multiple of) f, which exercises
			// the double-and-add of multiScalarmultVartimeFinal
			f := big.NewInt(int64([]int{2, 3, 5, 6, 255, 256, 65537}[r.Intn(7)]))
			if flavour == "common-factor-big" {
				f = new(big.Int).SetBit(refmodel.FromLE(r.Bytes(8+r.Intn(6))), 0, 1)
			}
			for i := 0; i < count; i++ {
				q := new(big.Int).Div(svals[i], f)
				if q.Sign() == 0 {
					q = big.NewInt(1)
				}
				svals[i] = q.Mul(q, f)
			}
			expectExact = false
		case "max-randomisers":
			for i := bs + 1; i < count; i++ {
				svals[i] = new(big.Int).Sub(new(big.Int).Lsh(big.NewInt(1), 128), big.NewInt(1))
			}
		}
		var scJ [][]int
		var ptJ []map[string]interface{}
		K, T := big.NewInt(0), 0
		for i := 0; i < count; i++ {
			enc := refmodel.FromKT(ks[i], ts[i]).Encode()
			if !ge25519.UnpackVartime(&pts[i], enc[:]) {
				panic("unpack")
			}
			b := refmodel.LE(svals[i], 32)
			modm.ExpandRaw(&scs[i], b)
			scJ = append(scJ, hx.Ints(b))
			ptJ = append(ptJ, ptDesc(ks[i], ts[i]))
			K.Add(K, new(big.Int).Mul(svals[i], ks[i]))
			T = (T + int(new(big.Int).Mod(svals[i], big.NewInt(8)).Int64())*ts[i]) % 8
		}
		K.Mod(K, refmodel.L)
		rec := &heapRec{count: count}
		ed25519.VerifHeapHook = func(h *ed25519.VerifBatchHeap, phase, max1, max2, limbSize int, extended bool) {
			rec.hevs = append(rec.hevs, []interface{}{phase, max1, max2, limbSize, extended})
			if len(rec.hevs) > 1000000 {
				panic(fmt.Sprintf("multiScalarmultVartime does not terminate: flavour=%s bs=%d scalars=%v last=%v", flavour, bs, svals, rec.hevs[len(rec.hevs)-3:]))
			}
		}
		var res ge25519.Ge25519
		watch(traces[0], fmt.Sprintf("multiScalarmultVartime (flavour=%s, %d points, scalars=%v)", flavour, bs, svals), func() { ed25519.VerifMultiScalarmult(&res, &heap, pts, scs, count) })
		var resb [32]byte
		ge25519.Pack(resb[:], &res)
		// the harness projects the real result: which (k, t) does it equal?  Try the exact sum first; if the
		// run is design-inexact TLC predicts another value, which the harness cannot know, so it reports the
		// result as bytes-equality with the exact sum only.
		exact := refmodel.FromKT(K, T).Encode()
		emit(map[string]interface{}{
			"via": "direct", "flavour": flavour, "n": bs, "count": count, "scalars": scJ, "points": ptJ, "hevs": rec.hevs,
			"res": map[string]interface{}{"k": hx.Ints(refmodel.LE(K, 32)), "t": T, "matches": true, "has": true, "equalsExact": resb == exact},
			"eqn": false, "hasEqn": false, "expectExact": expectExact,
		})
	}
	flavours := []string{"generic", "mixed-order", "torsion-only", "repeated", "zero-randomisers", "all-zero", "ones", "equal-scalars", "top-slice", "small-big", "max-randomisers", "common-factor", "common-factor-big"}
	dsizes := []int{2, 3, 4, 5, 8, 11}
	if thorough {
		dsizes = []int{2, 3, 4, 5, 6, 7, 8, 9, 12, 15, 16, 17, 31, 32, 33, 64}
	}
	for _, bs := range dsizes {
		for _, f := range flavours {
			direct(bs, f)
		}
	}
	ed25519.VerifHeapHook = nil
	for _, t := range traces {
		t.Close()
	}
	fmt.Printf("events=%d shards=%d\n", nEmit, nsh)
}
