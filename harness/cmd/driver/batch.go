package main

import (
	"bufio"
	"crypto"
	stded "crypto/ed25519"
	"crypto/sha512"
	"encoding/json"
	"errors"
	"fmt"
	"io"
	"math/big"
	"os"
	"sort"
	"sync"

	"github.com/oasisprotocol/ed25519"
	"github.com/oasisprotocol/ed25519/verifharness/hx"
	"github.com/oasisprotocol/ed25519/verifharness/refmodel"
)

func init() { families["batch"] = runBatch }

type badSpec struct {
	Pos  int    `json:"pos"`
	Kind string `json:"kind"`
}
type bCase struct {
	N       int       `json:"n"`
	Variant string    `json:"variant"`
	Zip     bool      `json:"zip"`
	Entropy string    `json:"entropy"`
	Bad     []badSpec `json:"bad"`
}

func readBatchCases(path string) []bCase {
	f, err := os.Open(path)
	if err != nil {
		panic(err)
	}
	defer f.Close()
	var out []bCase
	sc := bufio.NewScanner(f)
	sc.Buffer(make([]byte, 1<<20), 1<<26)
	for sc.Scan() {
		var c bCase
		if err := json.Unmarshal(sc.Bytes(), &c); err != nil {
			panic(err)
		}
		out = append(out, c)
	}
	return out
}

// bEntry is one batch entry with its abstract coordinates.
type bEntry struct {
	key, msg, sig []byte
	A, R          hx.PT
	a, r          *big.Int // secret scalar and nonce of the honest original
	kind          string
}

// optSet is one (variant, context) pair together with a pool of honest entries.
type optSet struct {
	variant string
	ctx     []byte
	pool    []*bEntry
	runKey  *bEntry
}

func (o *optSet) opts(zip bool) *ed25519.Options {
	op := &ed25519.Options{ZIP215Verify: zip, Context: string(o.ctx)}
	if o.variant == "ph" {
		op.Hash = crypto.SHA512
	}
	return op
}

// honest builds an honest entry with the library's signer and derives its
// coordinates independently (RFC 8032 5.1.5/5.1.6 with crypto/sha512); the
// projection is checked against refmodel once per entry.
func honest(o *optSet, r *hx.Rng) *bEntry {
	seed := r.Bytes(32)
	var priv ed25519.PrivateKey
	var sig []byte
	var err error
	msg := msgFor(o.variant, r)
	func() {
		defer func() {
			if x := recover(); x != nil {
				err = fmt.Errorf("panic: %v", x)
			}
		}()
		priv = ed25519.NewKeyFromSeed(seed)
		sig, err = priv.Sign(nil, msg, o.opts(false))
	}()
	if err != nil || len(priv) != 64 || len(sig) != 64 {
		// the signer is broken: fall back to the toolchain's signer so that the verifier can still be driven
		sp := stded.NewKeyFromSeed(seed)
		so := &stded.Options{Context: string(o.ctx)}
		if o.variant == "ph" {
			so.Hash = crypto.SHA512
		}
		priv = ed25519.PrivateKey(sp)
		sig, _ = sp.Sign(nil, msg, so)
	}
	hs := sha512.Sum512(seed)
	a := new(big.Int).Mod(refmodel.Clamp(hs[:32]), refmodel.L)
	h := sha512.New()
	h.Write(hx.Dom2(o.variant, o.ctx))
	h.Write(hs[32:])
	h.Write(msg)
	rn := new(big.Int).Mod(refmodel.FromLE(h.Sum(nil)), refmodel.L)
	e := &bEntry{key: append([]byte{}, priv[32:]...), msg: msg, sig: sig, a: a, r: rn, kind: "honest"}
	e.A = hx.KT(a, 0, 0, "honest")
	e.R = hx.KT(rn, 0, 0, "honest")
	if string(e.A.Bytes[:]) != string(e.key) || string(e.R.Bytes[:]) != string(sig[:32]) {
		// the library's key or R is not [a]B / [r]B: the coordinates are then unknown
		e.A = hx.FromBytes(e.key, "honest?")
		e.R = hx.FromBytes(sig[:32], "honest?")
	}
	return e
}

func newOptSet(variant string, r *hx.Rng, poolSize int) *optSet {
	o := &optSet{variant: variant, ctx: ctxFor(variant, r)}
	if variant == "ph" && r.Intn(2) == 0 {
		o.ctx = nil
	}
	pool := make([]*bEntry, poolSize)
	var wg sync.WaitGroup
	seeds := make([]int64, poolSize)
	for i := range seeds {
		seeds[i] = r.Int63()
	}
	sem := make(chan struct{}, 16)
	for i := range pool {
		wg.Add(1)
		go func(i int) {
			defer wg.Done()
			sem <- struct{}{}
			pool[i] = honest(o, hx.NewRng(seeds[i]))
			<-sem
		}(i)
	}
	wg.Wait()
	o.pool = pool
	return o
}

func flipBit(b []byte, bit int) []byte {
	out := append([]byte{}, b...)
	out[(bit/8)%len(out)] ^= 1 << uint(bit%8)
	return out
}

// mutate derives a bad entry of the given kind from an honest one.
func mutate(o *optSet, base *bEntry, kind string, r *hx.Rng, so [][32]byte) *bEntry {
	e := &bEntry{key: append([]byte{}, base.key...), msg: append([]byte{}, base.msg...), sig: append([]byte{}, base.sig...),
		A: base.A, R: base.R, a: base.a, r: base.r, kind: kind}
	setS := func(S *big.Int) { copy(e.sig[32:], refmodel.LE(S, 32)) }
	curS := func() *big.Int { return refmodel.FromLE(e.sig[32:64]) }
	resign := func() { // S := kR + h kA for the current A, R, msg
		h := hx.HRAM(o.variant, o.ctx, e.sig[:32], e.key, e.msg)
		S := new(big.Int).Mul(new(big.Int).Mod(refmodel.FromLE(h[:]), refmodel.L), e.A.K)
		S.Add(S, e.R.K).Mod(S, refmodel.L)
		setS(S)
	}
	switch kind {
	case "wrongMsg":
		if len(e.msg) == 0 {
			e.msg = []byte{1}
		} else {
			e.msg = flipBit(e.msg, r.Intn(8*len(e.msg)))
		}
	case "flipR":
		copy(e.sig[:32], flipBit(e.sig[:32], r.Intn(256)))
		e.R = hx.FromBytes(e.sig[:32], "flipR")
	case "flipS":
		copy(e.sig[32:], flipBit(e.sig[32:], r.Intn(252)))
	case "flipKey":
		e.key = flipBit(e.key, r.Intn(256))
		e.A = hx.FromBytes(e.key, "flipKey")
	case "SplusL":
		setS(new(big.Int).Add(curS(), refmodel.L))
	case "SplusLbad":
		setS(new(big.Int).Add(curS(), new(big.Int).Add(refmodel.L, big.NewInt(1))))
	case "smallA":
		enc := so[r.Intn(len(so))]
		e.key = enc[:]
		e.A = hx.FromBytes(e.key, "smallA")
		resign()
	case "smallA0": // always the same small-order key (identity), so that adjacent entries share their key
		e.key = so[0][:]
		e.A = hx.FromBytes(e.key, "smallA0")
		resign()
	case "sameSigner": // one fixed honest signer per option set: runs of entries with the same key
		if o.runKey == nil {
			o.runKey = honest(o, hx.NewRng(int64(len(o.ctx))+977))
		}
		e.A, e.a, e.key = o.runKey.A, o.runKey.a, o.runKey.key
		h := sha512.New()
		h.Write(hx.Dom2(o.variant, o.ctx))
		h.Write(e.key) // any deterministic nonce will do: R = [r]B with r known
		h.Write(e.msg)
		e.r = new(big.Int).Mod(refmodel.FromLE(h.Sum(nil)), refmodel.L)
		e.R = hx.KT(e.r, 0, 0, "sameSigner")
		copy(e.sig[:32], e.R.Bytes[:])
		resign()
	case "smallR":
		enc := so[r.Intn(len(so))]
		copy(e.sig[:32], enc[:])
		e.R = hx.FromBytes(e.sig[:32], "smallR")
		resign()
	case "mixedA":
		e.A = hx.KT(base.a, 1+r.Intn(7), 0, "mixedA")
		e.key = e.A.Bytes[:]
		resign()
	case "mixedR":
		e.R = hx.KT(base.r, 1+r.Intn(7), 0, "mixedR")
		copy(e.sig[:32], e.R.Bytes[:])
		resign()
	// an undecodable key / R; half of the time S is what would satisfy the equation if the library put the neutral
	// element in the place of the point it could not decode
	case "undecA":
		kR := e.R.K
		e.A = hx.Undecodable(r)
		e.key = e.A.Bytes[:]
		if r.Intn(2) == 0 && kR != nil {
			setS(new(big.Int).Mod(kR, refmodel.L))
		}
	case "undecR":
		kA := e.A.K
		e.R = hx.Undecodable(r)
		copy(e.sig[:32], e.R.Bytes[:])
		if r.Intn(2) == 0 && kA != nil {
			h := hx.HRAM(o.variant, o.ctx, e.sig[:32], e.key, e.msg)
			S := new(big.Int).Mul(new(big.Int).Mod(refmodel.FromLE(h[:]), refmodel.L), kA)
			setS(S.Mod(S, refmodel.L))
		}
	case "truncKey":
		e.key = e.key[:31]
	case "truncSig":
		e.sig = e.sig[:63]
	case "longSig":
		e.sig = append(e.sig, byte(r.Intn(256)))
	case "nilKey":
		e.key = nil
	case "nilSig":
		e.sig = nil
	// wrong pre-hash length with a signature that IS valid over that string under the ph transcript: only the
	// length check stands between it and acceptance
	case "digestLen63":
		e.msg = e.msg[:63]
		resign()
	case "digestLen65":
		e.msg = append(e.msg, 7)
		resign()
	case "digestLen0":
		e.msg = nil
		resign()
	default:
		panic("kind " + kind)
	}
	return e
}

// recReader is the entropy source: it records the byte stream it hands out, can deliver it in
// small pieces (a legal io.Reader) and can fail.
type recReader struct {
	mode    string // random | zero | ones
	rng     *hx.Rng
	stream  []byte // everything delivered so far
	nread   int
	piece   int // > 0: at most this many bytes per Read
	failAt  int
	shortAt int
}

func (rr *recReader) Read(p []byte) (int, error) {
	rr.nread++
	if rr.failAt == rr.nread {
		return 0, errors.New("verif: entropy failure")
	}
	n := len(p)
	if rr.shortAt == rr.nread {
		n = len(p) / 2
	}
	if rr.piece > 0 && n > rr.piece {
		n = rr.piece
	}
	switch rr.mode {
	case "zero":
		for i := range p[:n] {
			p[i] = 0
		}
	case "ones":
		for i := range p[:n] {
			p[i] = 0xff
		}
	default:
		rr.rng.Read(p[:n])
	}
	rr.stream = append(rr.stream, p[:n]...)
	if rr.shortAt == rr.nread {
		return n, io.EOF
	}
	return n, nil
}

var evNames = map[int]string{
	ed25519.VerifEvChunkBegin: "ChunkBegin", ed25519.VerifEvFailBatch: "FailBatch", ed25519.VerifEvMarked: "Marked",
	ed25519.VerifEvEquation: "Equation", ed25519.VerifEvFallback: "Fallback", ed25519.VerifEvFallbackOne: "FallbackOne",
	ed25519.VerifEvChunkEnd: "ChunkEnd", ed25519.VerifEvRemainder: "Remainder",
}

var hookMu sync.Mutex
var hookSinks = map[io.Reader]*[][]interface{}{}

func installBatchHook() {
	ed25519.VerifBatchHook = func(call io.Reader, ev, a, b int) {
		hookMu.Lock()
		if s, ok := hookSinks[call]; ok {
			*s = append(*s, []interface{}{evNames[ev], a, b})
		}
		hookMu.Unlock()
	}
}

func safeSingle(key ed25519.PublicKey, msg, sig []byte, o *ed25519.Options) (ok bool, panicked bool) {
	defer func() {
		if recover() != nil {
			ok, panicked = false, true
		}
	}()
	return ed25519.VerifyWithOptions(key, msg, sig, o), false
}

// shard is one self-contained trace file: its distinct entries ("entry" lines,
// numbered from 1) followed by the calls that refer to them.
type shard struct {
	tr   *hx.Trace
	reg  map[*bEntry]int
	sets map[string]*optSet
}

// ref registers an entry (emitting its "entry" line on first use) and returns its number.
func (sh *shard) ref(o *optSet, e *bEntry) int {
	if n, ok := sh.reg[e]; ok {
		return n
	}
	n := len(sh.reg) + 1
	sh.reg[e] = n
	sigLenOk := len(e.sig) == 64
	keyLenOk := len(e.key) == 32
	hashOk := o.variant != "ph" || len(e.msg) == 64
	S := make([]byte, 32)
	var h [64]byte
	A, R := e.A, e.R
	if !keyLenOk {
		A = hx.PT{Known: true, K: big.NewInt(0), Kind: "badlen"}
	}
	if !sigLenOk {
		R = hx.PT{Known: true, K: big.NewInt(0), Kind: "badlen"}
	}
	eq8 := false
	if sigLenOk {
		copy(S, e.sig[32:]) // the scalar half is examined (S < L) before the key is looked at
	}
	if sigLenOk && keyLenOk {
		h = hx.HRAM(o.variant, o.ctx, e.sig[:32], e.key, e.msg)
		if A.Dec && R.Dec && !(A.Known && R.Known) {
			eq8 = hx.Eq8(refmodel.FromLE(S), refmodel.FromLE(h[:]), A.Pt, R.Pt)
		}
	}
	sh.tr.Emit(map[string]interface{}{
		"op": "entry", "ref": n, "sigLenOk": sigLenOk, "keyLenOk": keyLenOk, "hashOk": hashOk, "S": hx.Ints(S), "h": hx.Ints(h[:]),
		"A": A.Desc(), "R": R.Desc(), "eq8": eq8, "kind": e.kind, "variant": o.variant,
		"key": hx.Ints(e.key), "msg": hx.Ints(e.msg), "sig": hx.Ints(e.sig), "ctx": hx.Ints(o.ctx),
	})
	return n
}

// runBatchCall executes one VerifyBatch call and emits its event.
func runBatchCall(sh *shard, o *optSet, zip bool, entries []*bEntry, entropy string, pre string, r *hx.Rng, caseNo int, extra map[string]interface{}) {
	tr := sh.tr
	n := len(entries)
	keys := make([]ed25519.PublicKey, n)
	msgs := make([][]byte, n)
	sigs := make([][]byte, n)
	for i, e := range entries {
		keys[i], msgs[i], sigs[i] = e.key, e.msg, e.sig
	}
	opts := o.opts(zip)
	hashOkAll := true
	switch pre {
	case "badhash":
		opts.Hash = crypto.SHA256
		hashOkAll = false
		pre = "none"
	case "longctx":
		opts.Context = string(r.Bytes(256 + r.Intn(50)))
		pre = "ctx"
	case "ctx256":
		opts.Context = string(r.Bytes(256))
		pre = "ctx"
	case "countKeys":
		keys = append(append([]ed25519.PublicKey{}, keys...), make([]byte, 32))
		pre = "count"
	case "countMsgs":
		msgs = append(msgs, []byte{1})
		pre = "count"
	case "countSigs":
		if n > 0 {
			sigs = sigs[:n-1]
		} else {
			sigs = append(sigs, make([]byte, 64))
		}
		pre = "count"
	}
	rr := &recReader{mode: entropy, rng: r}
	switch {
	case len(entropy) == 5 && entropy[:4] == "fail":
		rr.mode, rr.failAt = "random", int(entropy[4]-'0')
	case len(entropy) == 6 && entropy[:5] == "short":
		rr.mode, rr.shortAt = "random", int(entropy[5]-'0')
	case len(entropy) > 5 && entropy[:5] == "piece":
		rr.mode = "random"
		fmt.Sscanf(entropy[5:], "%d", &rr.piece)
	}
	var hooks [][]interface{}
	hookMu.Lock()
	hookSinks[rr] = &hooks
	hookMu.Unlock()
	var ok bool
	var valid []bool
	var err error
	panicked := func() (p bool) {
		defer func() {
			if x := recover(); x != nil {
				p = true
			}
		}()
		watch(sh.tr, "VerifyBatch", func() { ok, valid, err = ed25519.VerifyBatch(rr, keys, msgs, sigs, opts) })
		return false
	}()
	hookMu.Lock()
	delete(hookSinks, rr)
	hookMu.Unlock()

	// chunk structure: 64-entry chunks while >= 4 remain; randomisers as read
	singles := []bool{}
	refs := []int{}
	kinds := []string{}
	// the randomisers as the specification defines them: chunk c consumes the next 16*batchSize
	// bytes of the entropy STREAM (however many Read calls deliver them)
	stream := rr.stream
	z := make([][]int, 0, n)
	entropyOk := []bool{}
	{
		num, pos := n, 0
		for num >= 4 {
			bs := 64
			if num < 64 {
				bs = num
			}
			okc := pos+16*bs <= len(stream)
			entropyOk = append(entropyOk, okc)
			for i := 0; i < bs; i++ {
				if okc {
					z = append(z, hx.Ints(stream[pos+16*i:pos+16*i+16]))
				} else {
					z = append(z, hx.Ints(make([]byte, 16)))
				}
			}
			pos += 16 * bs
			num -= bs
			if !okc {
				break
			}
		}
		for len(z) < n {
			z = append(z, hx.Ints(make([]byte, 16)))
		}
		for len(entropyOk) < n/4+2 {
			entropyOk = append(entropyOk, true)
		}
	}
	for _, e := range entries {
		refs = append(refs, sh.ref(o, e))
		kinds = append(kinds, e.kind)
		if pre == "none" && len(e.key) == 32 {
			sopts := *opts
			s, _ := safeSingle(e.key, e.msg, e.sig, &sopts)
			singles = append(singles, s)
		} else {
			singles = append(singles, false)
		}
	}
	errName := "none"
	if err != nil {
		switch {
		case err.Error() == "ed25519: argument count mismatch":
			errName = "count"
		case len(err.Error()) > 27 && err.Error()[:27] == "ed25519: bad context length":
			errName = "ctx"
		default:
			errName = "entropy"
		}
	}
	if panicked {
		errName = "PANIC"
	}
	if valid == nil {
		valid = []bool{}
	}
	ev := map[string]interface{}{
		"op": "batch", "n": n, "zip": zip, "variant": o.variant, "entropy": entropy, "degenerate": entropy == "zero" || entropy == "ones",
		"pre": pre, "refs": refs, "kinds": kinds, "hashOkAll": hashOkAll, "z": z, "entropyOk": entropyOk, "hooks": hooks,
		"result":  map[string]interface{}{"ok": ok, "valid": valid, "err": errName},
		"singles": singles, "case": caseNo, "cfg": *fCfg, "ctxlen": len(opts.Context),
	}
	if hooks == nil {
		ev["hooks"] = [][]interface{}{}
	}
	for k, v := range extra {
		ev[k] = v
	}
	tr.Emit(ev)
}

func runBatch() {
	cases := readBatchCases(*fCases)
	r := hx.NewRng(*fSeed)
	installBatchHook()
	so := refmodel.SmallOrderEncodings()
	thorough := *fTier == "thorough"
	prop := *fProp

	nsh := *fShards
	poolSize := 40
	if thorough {
		poolSize = 100
	}
	shards := make([]*shard, nsh)
	for s := range shards {
		sh := &shard{tr: hx.NewTrace(fmt.Sprintf("%s.%d", *fOut, s)), reg: map[*bEntry]int{}, sets: map[string]*optSet{}}
		for _, v := range []string{"pure", "ctx", "ph"} {
			sh.sets[v] = newOptSet(v, r, poolSize)
		}
		shards[s] = sh
	}

	build := func(sh *shard, c bCase, cr *hx.Rng) (*optSet, []*bEntry, string) {
		pre := "none"
		variant := c.Variant
		switch c.Variant {
		case "badhash", "longctx", "countKeys", "countMsgs", "countSigs", "ctx256":
			pre, variant = c.Variant, "pure"
		case "ctx255":
			variant = "ctx"
		}
		o := sh.sets[variant]
		if c.Variant == "ctx255" {
			o = &optSet{variant: "ctx", ctx: cr.Bytes(255)}
			for i := 0; i < 8; i++ {
				o.pool = append(o.pool, honest(o, cr))
			}
		}
		entries := make([]*bEntry, c.N)
		for i := range entries {
			entries[i] = o.pool[cr.Intn(len(o.pool))]
		}
		for _, b := range c.Bad {
			entries[b.Pos] = mutate(o, entries[b.Pos], b.Kind, cr, so)
		}
		return o, entries, pre
	}

	type job struct {
		i int
		c bCase
	}
	var selected []job
	for i, c := range cases {
		nb := len(c.Bad)
		isErr := c.Variant != "pure" && c.Variant != "ctx" && c.Variant != "ph" || (len(c.Entropy) > 4 && c.Entropy != "random" && c.Entropy[:4] != "piec")
		chunky := len(c.Entropy) > 5 && c.Entropy[:5] == "piece"
		kinds := map[string]bool{}
		for _, b := range c.Bad {
			kinds[b.Kind] = true
		}
		only := func(allowed ...string) bool {
			for k := range kinds {
				ok := false
				for _, a := range allowed {
					ok = ok || a == k
				}
				if !ok {
					return false
				}
			}
			return true
		}
		var num, den uint32 = 1, 1
		want := true
		switch prop {
		case "C06":
			switch {
			case isErr:
				num, den = 1, 1
			case chunky:
				num, den = 1, 4
			case kinds["smallA0"] || kinds["sameSigner"]:
				num, den = 1, 2
			case nb == 0:
				num, den = 1, 40
			case c.N <= 5:
				num, den = 1, 6
			default:
				num, den = 1, 50
			}
		case "C17": // all-valid batches (incl. mixed-order keys / R and same-signer runs, which are valid): the equation itself must accept
			want = !isErr && only("mixedA", "mixedR", "sameSigner")
			num, den = 1, 3
			if nb > 0 {
				num, den = 1, 12
			}
		case "C07": // refusal surfaces of VerifyBatch: wrong pre-hash lengths (false entry), option errors
			want = isErr || kinds["digestLen63"] || kinds["digestLen65"] || kinds["digestLen0"]
			num, den = 1, 4
		case "C03": // library-made signatures as batch members of every size / position, same-signer runs
			want = !isErr && only("sameSigner") && c.Entropy == "random"
			num, den = 1, 8
			// ... and library-made signatures next to a malformed member in a batch of several chunks: the honest ones must still verify
			if !isErr && !want && nb > 0 && c.N > 64 && c.Entropy == "random" &&
				only("undecA", "undecR", "smallR", "smallA", "truncSig", "truncKey", "nilKey", "nilSig", "longSig", "wrongMsg", "flipR") {
				want = true
				num, den = 1, 30
			}
		case "C04": // S >= L at every position of every chunking, all four verifier modes
			want = !isErr && nb > 0 && only("SplusL", "SplusLbad", "flipS", "wrongMsg", "smallA", "truncSig", "nilKey", "smallR") && (kinds["SplusL"] || kinds["SplusLbad"])
			num, den = 1, 8
		case "C05": // ZIP-215 batches with small-order entries, alone and next to other failures
			want = !isErr && c.Zip && (kinds["smallA"] || kinds["smallR"] || kinds["mixedA"] || kinds["mixedR"])
			num, den = 1, 14
		case "C09": // small-order / mixed-order / undecodable key and R at every position of every chunking
			want = !isErr && nb > 0 && (kinds["smallA"] || kinds["smallR"] || kinds["mixedA"] || kinds["mixedR"] || kinds["undecA"] || kinds["undecR"] || kinds["smallA0"])
			num, den = 1, 20
			if kinds["smallA0"] {
				num, den = 1, 1
			}
		case "C13":
			want = isErr || nb > 0 && c.N <= 5 || (nb == 0 && (c.Entropy == "zero" || c.Entropy == "ones") && c.N <= 70)
			num, den = 1, 3
		}
		if !want {
			continue
		}
		if thorough {
			if c.N > 5 && !isErr && prop != "C17" {
				num = num * 10
			} else {
				num, den = 1, 1
			}
		}
		if !pick(*fSeed, i, num, den) {
			continue
		}
		selected = append(selected, job{i, c})
	}
	sort.Slice(selected, func(a, b int) bool { return selected[a].i < selected[b].i })
	for k, j := range selected {
		sh := shards[k%nsh]
		cr := hx.NewRng(*fSeed*1000003 + int64(j.i))
		o, entries, pre := build(sh, j.c, cr)
		runBatchCall(sh, o, j.c.Zip, entries, j.c.Entropy, pre, cr, j.i, nil)
	}

	// heterogeneous random batches: every entry independently good or bad
	if prop == "C06" || prop == "" {
		kinds := []string{"wrongMsg", "flipR", "flipS", "flipKey", "SplusL", "smallA", "smallR", "undecA", "undecR", "truncKey", "truncSig", "longSig", "mixedA", "mixedR", "SplusLbad", "nilKey", "nilSig"}
		reps := 24
		if thorough {
			reps = 300
		}
		for n := 0; n < reps; n++ {
			sh := shards[n%nsh]
			v := []string{"pure", "ctx", "ph"}[r.Intn(3)]
			o := sh.sets[v]
			size := []int{3, 4, 7, 12, 33, 64, 66, 70, 129}[r.Intn(9)]
			pBad := []int{0, 5, 20, 50}[r.Intn(4)]
			entries := make([]*bEntry, size)
			for i := range entries {
				entries[i] = o.pool[r.Intn(len(o.pool))]
				if r.Intn(100) < pBad {
					entries[i] = mutate(o, entries[i], kinds[r.Intn(len(kinds))], r, so)
				}
			}
			runBatchCall(sh, o, r.Intn(2) == 0, entries, "random", "none", r, -1, nil)
		}
	}
	total := 0
	for _, sh := range shards {
		total += sh.tr.Count()
		sh.tr.Close()
	}
	fmt.Printf("events=%d shards=%d\n", total, nsh)
}
