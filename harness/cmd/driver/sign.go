package main

import (
	"bytes"
	"crypto"
	stded "crypto/ed25519"
	"crypto/sha512"
	"encoding/binary"
	"encoding/hex"
	"fmt"
	"io"
	"math/big"
	"runtime"
	"sort"
	"strings"
	"sync"

	"github.com/oasisprotocol/ed25519"
	"github.com/oasisprotocol/ed25519/verifharness/hx"
	"github.com/oasisprotocol/ed25519/verifharness/refmodel"
)

func init() { families["sign"] = runSign }

type countReader struct{ n int }

func (c *countReader) Read(p []byte) (int, error) {
	c.n++
	for i := range p {
		p[i] = 0xA5
	}
	return len(p), nil
}

type vpair struct {
	variant string
	ctx     []byte
}

// reusedOpts: when non-nil, opts() re-uses this one Options object for every call, overwriting its fields (a caller may
// keep one Options value and change its Context / Hash between calls: the library must read the fields of each call)
var reusedOpts *ed25519.Options

func (p vpair) opts(zip bool) *ed25519.Options {
	o := &ed25519.Options{}
	if reusedOpts != nil {
		o = reusedOpts
	}
	o.ZIP215Verify, o.Context, o.Hash = zip, string(p.ctx), crypto.Hash(0)
	if p.variant == "ph" {
		o.Hash = crypto.SHA512
	}
	return o
}

func (p vpair) stdOpts() *stded.Options {
	o := &stded.Options{Context: string(p.ctx)}
	if p.variant == "ph" {
		o.Hash = crypto.SHA512
	}
	return o
}

func (p vpair) String() string { return fmt.Sprintf("%s/%d", p.variant, len(p.ctx)) }

type signed struct {
	p        vpair
	seed     []byte
	priv     ed25519.PrivateKey
	msg, sig []byte
	a, r     *big.Int
}

// derive computes the RFC 8032 intermediate values independently of the library.
func derive(seed []byte, p vpair, msg []byte) (hs [64]byte, a *big.Int, hr [64]byte, r *big.Int) {
	hs = sha512.Sum512(seed)
	a = refmodel.Clamp(hs[:32])
	h := sha512.New()
	h.Write(hx.Dom2(p.variant, p.ctx))
	h.Write(hs[32:])
	h.Write(msg)
	h.Sum(hr[:0])
	r = new(big.Int).Mod(refmodel.FromLE(hr[:]), refmodel.L)
	return
}

func signAll(priv ed25519.PrivateKey, p vpair, msg []byte, cr *countReader) []map[string]interface{} {
	var out []map[string]interface{}
	add := func(api string, f func() ([]byte, error)) {
		for rep := 0; rep < 2; rep++ {
			var sig []byte
			var err error
			func() {
				defer func() {
					if x := recover(); x != nil {
						err = fmt.Errorf("panic: %v", x)
					}
				}()
				sig, err = f()
			}()
			e := map[string]interface{}{"api": api, "sig": hx.Ints(sig), "err": ""}
			if err != nil {
				e["err"] = err.Error()
				e["sig"] = []int{}
			}
			out = append(out, e)
		}
	}
	switch p.variant {
	case "pure":
		add("Sign", func() ([]byte, error) { return ed25519.Sign(priv, msg), nil })
		add("PrivateKey.Sign/Hash(0)", func() ([]byte, error) { return priv.Sign(cr, msg, crypto.Hash(0)) })
		add("PrivateKey.Sign/*Options{}", func() ([]byte, error) { return priv.Sign(cr, msg, &ed25519.Options{}) })
		add("PrivateKey.Sign/nil-rand", func() ([]byte, error) { return priv.Sign(nil, msg, crypto.Hash(0)) })
	case "ctx":
		add("PrivateKey.Sign/*Options{Context}", func() ([]byte, error) { return priv.Sign(cr, msg, p.opts(false)) })
		add("PrivateKey.Sign/*Options{Context,ZIP}", func() ([]byte, error) { return priv.Sign(cr, msg, p.opts(true)) })
	case "ph":
		if len(p.ctx) == 0 {
			add("PrivateKey.Sign/SHA512", func() ([]byte, error) { return priv.Sign(cr, msg, crypto.SHA512) })
		}
		add("PrivateKey.Sign/*Options{SHA512,Context}", func() ([]byte, error) { return priv.Sign(cr, msg, p.opts(false)) })
	}
	return out
}

// verifyEvent builds a TraceVerify event for an honest or cross-pair verification.
func verifyEvent(api string, zip bool, vp vpair, A, R hx.PT, msg, sig []byte, got bool, note string) map[string]interface{} {
	S := make([]byte, 32)
	var h [64]byte
	if len(sig) == 64 {
		copy(S, sig[32:])
		h = hx.HRAM(vp.variant, vp.ctx, sig[:32], A.Bytes[:], msg)
	}
	return map[string]interface{}{
		"op": "verify", "api": api, "zip": zip, "variant": vp.variant, "siglen": len(sig),
		"S": hx.Ints(S), "A": A.Desc(), "R": R.Desc(), "h": hx.Ints(h[:]), "eq8": false,
		"got": got, "case": -1, "cfg": *fCfg, "srule": note, "ctxlen": len(vp.ctx), "msglen": len(msg),
	}
}

func runSign() {
	r := hx.NewRng(*fSeed)
	tr := hx.NewTrace(*fOut)
	defer tr.Close()
	vtr := hx.NewTrace(*fAux) // verify events (TraceVerify format)
	defer vtr.Close()
	thorough := *fTier == "thorough"
	prop := *fProp

	pairs := []vpair{{"pure", nil}}
	for _, n := range []int{1, 2, 16, 254, 255} {
		pairs = append(pairs, vpair{"ctx", r.Bytes(n)})
	}
	for _, n := range []int{0, 1, 16, 255} {
		pairs = append(pairs, vpair{"ph", r.Bytes(n)})
	}
	seeds := [][]byte{make([]byte, 32), bytes.Repeat([]byte{0xff}, 32)}
	nseeds := 6
	if thorough {
		nseeds = 60
	}
	for i := 0; i < nseeds; i++ {
		seeds = append(seeds, r.Bytes(32))
	}
	msgLens := []int{0, 1, 111, 112, 127, 128, 129, 300}
	if thorough {
		msgLens = append(msgLens, 1<<20, 4096, 239, 240)
	}

	var all []*signed
	doSign := func(seed []byte, p vpair, msg []byte) *signed {
		// the seed lives in a buffer with spare capacity that the caller overwrites after key derivation:
		// signing is a function of the key VALUE, not of memory the caller still owns
		sbuf := bytes.Repeat([]byte{0xCC}, 128)
		copy(sbuf, seed)
		priv := sNewKey(tr, sbuf[:32])
		for i := range sbuf {
			sbuf[i] = 0
		}
		cr := &countReader{}
		results := signAll(priv, p, msg, cr)
		hs, a, hr, rn := derive(seed, p, msg)
		pub := []byte(priv[32:])
		sig := []byte{}
		if len(results) > 0 && results[0]["err"] == "" {
			s := results[0]["sig"].([]int)
			sig = make([]byte, len(s))
			for i, v := range s {
				sig[i] = byte(v)
			}
		}
		var hk [64]byte
		if len(sig) == 64 {
			hk = hx.HRAM(p.variant, p.ctx, sig[:32], pub, msg)
		}
		kA := new(big.Int).Mod(a, refmodel.L)
		encA := refmodel.BaseMul(kA).Encode()
		encR := refmodel.BaseMul(rn).Encode()
		stdPriv := stded.NewKeyFromSeed(seed)
		stdSig, err := stdPriv.Sign(nil, msg, p.stdOpts())
		if err != nil {
			panic(err)
		}
		var gpub ed25519.PublicKey
		var gpriv ed25519.PrivateKey
		var gerr error
		guard(tr, "GenerateKey", func() { gpub, gpriv, gerr = ed25519.GenerateKey(bytes.NewReader(seed)) })
		tr.Emit(map[string]interface{}{
			"op": "sign", "seed": hx.Ints(seed), "hs": hx.Ints(hs[:]), "variant": p.variant, "ctx": hx.Ints(p.ctx), "msglen": len(msg),
			"dom2": hx.Ints(hx.Dom2(p.variant, p.ctx)), "hr": hx.Ints(hr[:]), "hk": hx.Ints(hk[:]),
			"pub": hx.Ints(pub), "privSeedPart": hx.Ints(priv[:32]), "sig": hx.Ints(sig), "results": results, "randReads": cr.n,
			"kA": hx.Ints(refmodel.LE(kA, 32)), "pubEncOk": bytes.Equal(encA[:], pub),
			"kR": hx.Ints(refmodel.LE(rn, 32)), "rEncOk": len(sig) == 64 && bytes.Equal(encR[:], sig[:32]),
			"stdPub": hx.Ints(stdPriv[32:]), "stdSig": hx.Ints(stdSig),
			"genOk": gerr == nil && bytes.Equal(gpub, pub) && bytes.Equal(gpriv, priv), "cfg": *fCfg,
		})
		s := &signed{p: p, seed: seed, priv: priv, msg: msg, sig: sig, a: kA, r: rn}
		return s
	}

	if prop == "C02" || prop == "C03" || prop == "" {
		for si, seed := range seeds {
			for pi, p := range pairs {
				lens := msgLens
				if p.variant == "ph" {
					lens = []int{64}
				}
				for li, n := range lens {
					// quick: a diagonal sample of (seed, pair, length); the special seeds get everything
					if !thorough && si >= 2 && (si+pi+li)%3 != 0 {
						continue
					}
					if n >= 1<<20 && si > 2 {
						continue
					}
					all = append(all, doSign(seed, p, r.Bytes(n)))
				}
			}
		}
	}

	// ---- rare internal values (found once with the standard library, see cmd/rarehunt): signing inputs whose nonce or whose
	// r + h*a sits on a limb boundary that random inputs reach with probability about 2^-28 ---
	if prop == "C02" || prop == "C03" || prop == "" {
		for _, f := range rareFixtures {
			seed, _ := hex.DecodeString(f.seed)
			msg, _ := hex.DecodeString(f.msg)
			all = append(all, doSign(seed, pairs[0], msg))
		}
	}

	// ---- one Options object re-used across calls, its Context / Hash overwritten in between: contexts of EQUAL length that
	// differ, the same context under ctx and ph, back and forth ---
	if prop == "C02" || prop == "C03" || prop == "C07" || prop == "" {
		reusedOpts = &ed25519.Options{}
		seed := r.Bytes(32)
		cA, cB := bytes.Repeat([]byte{'a'}, 16), bytes.Repeat([]byte{'b'}, 16)
		c1, c2 := []byte{1}, []byte{2}
		seq := []vpair{{"ctx", cA}, {"ctx", cB}, {"ph", cB}, {"ph", cA}, {"ctx", cA}, {"pure", nil}, {"ctx", c1}, {"ctx", c2}, {"ph", c2}, {"ph", nil}, {"ctx", c1},
			{"ph", c1}, {"ctx", cB}, {"ctx", cA}}
		for _, p := range seq {
			n := 40
			if p.variant == "ph" {
				n = 64
			}
			all = append(all, doSign(seed, p, r.Bytes(n)))
		}
		reusedOpts = nil
	}

	// ---- message-length sweep (block boundaries of SHA-512 and of any buffering) and bulk round trips ---
	if prop == "C02" || prop == "C03" || prop == "" {
		var lens []int
		for k := uint(5); k <= 16; k++ {
			lens = append(lens, 1<<k-1, 1<<k, 1<<k+1)
		}
		lens = append(lens, 4000, 4032, 4033, 4064, 4095, 4097, 5000, 9000, 70000)
		for i, n := range lens {
			p := pairs[i%len(pairs)]
			if p.variant == "ph" {
				p = pairs[0]
			}
			all = append(all, doSign(r.Bytes(32), p, r.Bytes(n)))
		}
		bulk := 1500
		if thorough {
			bulk = 20000
		}
		if *fCfg != "default" {
			bulk *= 2 // the 32-bit scalar arithmetic is reached only here
		}
		for i := 0; i < bulk; i++ {
			p := pairs[0]
			if i%8 == 1 {
				p = pairs[1+r.Intn(len(pairs)-1)]
			}
			n := r.Intn(96)
			if p.variant == "ph" {
				n = 64
			}
			s := doSign(r.Bytes(32), p, r.Bytes(n))
			if i%16 == 0 {
				all = append(all, s)
			}
		}
	}

	// ---- pattern hunt: honest signatures whose R or S bytes are extreme (thin slices a verifier-side strictness bug would hit) ---
	if (prop == "C03" || prop == "") && *fCfg == "default" {
		tries := 3000000
		if thorough {
			tries = 12000000
		}
		hseed := r.Bytes(32)
		hpriv := sNewKey(tr, hseed)
		type hit struct {
			msg []byte
			why string
		}
		hits := make(chan hit, 1024)
		var wg sync.WaitGroup
		nw := runtime.NumCPU()
		for w := 0; w < nw; w++ {
			wg.Add(1)
			go func(w int) {
				defer wg.Done()
				defer func() { recover() }()
				msg := make([]byte, 12)
				for i := w; i < tries; i += nw {
					binary.LittleEndian.PutUint64(msg, uint64(i))
					sg := ed25519.Sign(hpriv, msg)
					if len(sg) != 64 {
						return
					}
					why := ""
					switch {
					case sg[31]&0x7f == 0x7f && sg[30] == 0xff:
						why = "R: top 15 bits of y set"
					case sg[31]&0x7f == 0 && sg[30] == 0:
						why = "R: top 15 bits of y clear"
					case sg[0] == 0xff && sg[1] == 0xff:
						why = "R: low 16 bits set"
					case sg[0] == 0 && sg[1] == 0:
						why = "R: low 16 bits clear"
					case sg[63] == 0x0f && sg[62] >= 0xf0:
						why = "S: just below 2^252"
					case sg[63] == 0 && sg[62] == 0:
						why = "S: below 2^240"
					case sg[32] == 0xff && sg[33] == 0xff:
						why = "S: low 16 bits set"
					case sg[32] == 0 && sg[33] == 0:
						why = "S: low 16 bits clear"
					case sg[15] == 0xff && sg[16] == 0xff && sg[17]&0x0f == 0x0f:
						why = "R: run of ones across the middle limb boundary"
					case sg[47] == 0 && sg[48] == 0 && sg[49]&0x0f == 0:
						why = "S: run of zeros across the middle limb boundary"
					}
					if why != "" {
						hits <- hit{append([]byte{}, msg...), why}
					}
				}
			}(w)
		}
		go func() { wg.Wait(); close(hits) }()
		var found []hit
		for h := range hits {
			found = append(found, h)
		}
		sort.Slice(found, func(a, b int) bool { return bytes.Compare(found[a].msg, found[b].msg) < 0 })
		// keep every hit of the rarest classes, a bounded number of the others
		perWhy := map[string]int{}
		for _, h := range found {
			limit := 12
			if strings.HasPrefix(h.why, "R: top 15") || strings.HasPrefix(h.why, "S: just below") {
				limit = 120
			}
			if perWhy[h.why] >= limit {
				continue
			}
			perWhy[h.why]++
			all = append(all, doSign(hseed, pairs[0], h.msg))
		}
	}

	// ---- C03: every produced signature verifies everywhere --------------------------------
	if prop == "C03" || prop == "" {
		for _, s := range all {
			if len(s.sig) != 64 {
				continue
			}
			A := hx.KT(s.a, 0, 0, "honest")
			R := hx.KT(s.r, 0, 0, "honest")
			if !bytes.Equal(A.Bytes[:], s.priv[32:]) || !bytes.Equal(R.Bytes[:], s.sig[:32]) {
				A, R = hx.FromBytes(s.priv[32:], "honest?"), hx.FromBytes(s.sig[:32], "honest?")
			}
			key := ed25519.PublicKey(s.priv[32:])
			if s.p.variant == "pure" {
				vtr.Emit(verifyEvent("Verify", false, s.p, A, R, s.msg, s.sig, sVerify(vtr, key, s.msg, s.sig), "issued"))
			}
			for _, zip := range []bool{false, true} {
				vtr.Emit(verifyEvent("VerifyWithOptions", zip, s.p, A, R, s.msg, s.sig, sVerifyOpts(vtr, key, s.msg, s.sig, s.p.opts(zip)), "issued"))
			}
		}
		// batch membership: group issued signatures by pair, sizes 1,3,4,5,64,65,129 (as many as available)
		byPair := map[string][]*signed{}
		for _, s := range all {
			if len(s.sig) == 64 {
				byPair[s.p.String()+string(s.p.ctx)] = append(byPair[s.p.String()+string(s.p.ctx)], s)
			}
		}
		keysSorted := []string{}
		for k := range byPair {
			keysSorted = append(keysSorted, k)
		}
		sort.Strings(keysSorted)
		for _, k := range keysSorted {
			group := byPair[k]
			for _, n := range []int{1, 3, 4, 5, 64, 65, 129} {
				if !thorough && n > 5 && len(group) < 8 {
					continue
				}
				// extend the group with fresh signatures under the same pair if needed
				members := append([]*signed{}, group...)
				for len(members) < n {
					p := group[0].p
					ml := 64
					if p.variant != "ph" {
						ml = r.Intn(200)
					}
					members = append(members, doSign(r.Bytes(32), p, r.Bytes(ml)))
				}
				r.Shuffle(len(members), func(i, j int) { members[i], members[j] = members[j], members[i] })
				members = members[:n]
				keys := make([]ed25519.PublicKey, n)
				msgs := make([][]byte, n)
				sigs := make([][]byte, n)
				for i, m := range members {
					keys[i], msgs[i], sigs[i] = ed25519.PublicKey(m.priv[32:]), m.msg, m.sig
				}
				zip := n%2 == 0
				ok, valid, _ := sBatch(vtr, r, keys, msgs, sigs, group[0].p.opts(zip))
				for i, m := range members {
					A := hx.KT(m.a, 0, 0, "honest")
					R := hx.KT(m.r, 0, 0, "honest")
					ev := verifyEvent("VerifyBatch", zip, m.p, A, R, m.msg, m.sig, valid[i] && ok, "issued")
					ev["batch_n"], ev["batch_pos"] = n, i
					vtr.Emit(ev)
				}
			}
		}
	}

	// ---- C07: cross-pair acceptance and the option table ------------------------------------
	if prop == "C07" || prop == "" {
		x254 := bytes.Repeat([]byte{'x'}, 254)
		x255 := bytes.Repeat([]byte{'x'}, 255)
		cp := []vpair{{"pure", nil}, {"ctx", []byte("a")}, {"ctx", []byte("b")}, {"ctx", []byte("a\x00")}, {"ctx", []byte("aa")},
			{"ctx", x254}, {"ctx", x255}, {"ctx", append(append([]byte{}, x254...), 'y')},
			{"ph", nil}, {"ph", []byte("a")}, {"ph", []byte("b")}, {"ph", []byte("a\x00")}, {"ph", x255}, {"ph", x254}}
		reps := 1
		if thorough {
			reps = 4
		}
		for rep := 0; rep < reps; rep++ {
			seed := r.Bytes(32)
			msg := r.Bytes(64) // valid under every variant (ph needs a 64-byte digest)
			for _, p1 := range cp {
				s := doSign(seed, p1, msg)
				A := hx.KT(s.a, 0, 0, "honest")
				R := hx.KT(s.r, 0, 0, "honest")
				key := ed25519.PublicKey(s.priv[32:])
				for _, p2 := range cp {
					note := "cross:" + p1.String() + "->" + p2.String()
					if p2.variant == "pure" {
						vtr.Emit(verifyEvent("Verify", false, p2, A, R, msg, s.sig, sVerify(vtr, key, msg, s.sig), note))
					}
					for _, zip := range []bool{false, true} {
						vtr.Emit(verifyEvent("VerifyWithOptions", zip, p2, A, R, msg, s.sig, sVerifyOpts(vtr, key, msg, s.sig, p2.opts(zip)), note))
					}
					// as a member of a batch verified under p2 (the other members are honest under p2)
					n, pos := 4, r.Intn(4)
					keys := make([]ed25519.PublicKey, n)
					msgs := make([][]byte, n)
					sigs := make([][]byte, n)
					for i := 0; i < n; i++ {
						if i == pos {
							keys[i], msgs[i], sigs[i] = key, msg, s.sig
							continue
						}
						o := stded.NewKeyFromSeed(r.Bytes(32))
						m := r.Bytes(64)
						sg, err := o.Sign(nil, m, p2.stdOpts())
						if err != nil {
							panic(err)
						}
						keys[i], msgs[i], sigs[i] = ed25519.PublicKey(o[32:]), m, sg
					}
					_, valid, _ := sBatch(vtr, r, keys, msgs, sigs, p2.opts(rep%2 == 1))
					ev := verifyEvent("VerifyBatch", rep%2 == 1, p2, A, R, msg, s.sig, valid[pos], note)
					vtr.Emit(ev)
					// a whole chunk of signatures made under p1, verified under p2 (the batch equation itself decides)
					if p1.String() != p2.String() || string(p1.ctx) != string(p2.ctx) {
						n := 4 + rep%2
						ks := make([]ed25519.PublicKey, n)
						ms := make([][]byte, n)
						ss := make([][]byte, n)
						var as, rs []hx.PT
						for i := 0; i < n; i++ {
							sd := r.Bytes(32)
							m := r.Bytes(64)
							o := stded.NewKeyFromSeed(sd)
							sg, err := o.Sign(nil, m, p1.stdOpts())
							if err != nil {
								panic(err)
							}
							_, a2, _, r2 := derive(sd, p1, m)
							ks[i], ms[i], ss[i] = ed25519.PublicKey(o[32:]), m, sg
							as = append(as, hx.KT(a2, 0, 0, "honest"))
							rs = append(rs, hx.KT(r2, 0, 0, "honest"))
						}
						_, v2, _ := sBatch(vtr, r, ks, ms, ss, p2.opts(rep%2 == 0))
						for i := 0; i < n; i++ {
							vtr.Emit(verifyEvent("VerifyBatch/all", rep%2 == 0, p2, as[i], rs[i], ms[i], ss[i], v2[i], note))
						}
					}
					for i, v := range valid {
						if i != pos && !v {
							vtr.Emit(map[string]interface{}{"op": "note", "what": "stdlib-signed batch neighbour rejected under " + p2.String()})
						}
					}
				}
			}
		}
		optionTable(tr, r)
	}
	fmt.Printf("events=%d verify_events=%d\n", tr.Count(), vtr.Count())
}

// optionTable replays the option/length matrix on the three entry points.
func optionTable(tr *hx.Trace, r *hx.Rng) {
	seed := r.Bytes(32)
	priv := sNewKey(tr, seed)
	std := stded.NewKeyFromSeed(seed)
	pub := ed25519.PublicKey(priv[32:])
	hashes := map[int]crypto.Hash{0: crypto.Hash(0), 512: crypto.SHA512, 256: crypto.SHA256, 99: crypto.Hash(99)}
	// candidates: which variant does a signature belong to / which signatures are accepted
	candSig := func(msg []byte, ctx string) map[string][]byte {
		out := map[string][]byte{}
		out["pure"] = stded.Sign(std, msg)
		if len(ctx) > 0 && len(ctx) <= 255 {
			s, err := std.Sign(nil, msg, &stded.Options{Context: ctx})
			if err == nil {
				out["ctx"] = s
			}
		}
		if len(msg) == 64 && len(ctx) <= 255 {
			s, err := std.Sign(nil, msg, &stded.Options{Hash: crypto.SHA512, Context: ctx})
			if err == nil {
				out["ph"] = s
			}
		}
		return out
	}
	classify := func(err error) string {
		switch {
		case err == nil:
			return "ok"
		case strings.Contains(err.Error(), "bad context length"):
			return "errCtx"
		case strings.Contains(err.Error(), "bad message hash length"):
			return "errDigest"
		case strings.Contains(err.Error(), "expected opts HashFunc"):
			return "errHash"
		}
		return "err?" + err.Error()
	}
	for _, style := range []string{"hash0", "sha512", "foreign", "options"} {
		for _, hc := range []int{0, 512, 256, 99} {
			if style == "hash0" && hc != 0 || style == "sha512" && hc != 512 || style == "foreign" && hc != 256 && hc != 99 {
				continue
			}
			for _, cl := range []int{0, 1, 2, 254, 255, 256, 257, 1000} {
				if style != "options" && cl != 0 {
					continue
				}
				for _, ml := range []int{0, 63, 64, 65} {
					msg := r.Bytes(ml)
					ctx := string(r.Bytes(cl))
					cands := candSig(msg, ctx)
					tstyle := style
					if style == "foreign" {
						tstyle = "hash0" // a bare crypto.Hash: no context; the selector decides
					}
					base := map[string]interface{}{"op": "opts", "style": tstyle, "hash": hc, "ctxlen": cl, "msglen": ml, "cfg": *fCfg}
					emit := func(api, surface, variants string) {
						ev := map[string]interface{}{"api": api, "surface": surface, "variants": variants}
						for k, v := range base {
							ev[k] = v
						}
						tr.Emit(ev)
					}
					// --- Sign
					var so crypto.SignerOpts
					if style == "options" {
						so = &ed25519.Options{Hash: hashes[hc], Context: ctx}
					} else {
						so = hashes[hc]
					}
					func() {
						surface, variants := "", ""
						defer func() {
							if x := recover(); x != nil {
								surface = "panic"
							}
							emit("Sign", surface, variants)
						}()
						sig, err := priv.Sign(nil, msg, so)
						surface = classify(err)
						if err == nil {
							surface = "ok"
							var vs []string
							for _, v := range []string{"pure", "ctx", "ph"} {
								if c, ok := cands[v]; ok && bytes.Equal(c, sig) {
									vs = append(vs, v)
								}
							}
							variants = strings.Join(vs, ",")
						} else {
							surface = "error:" + surface
						}
					}()
					if style != "options" {
						continue
					}
					// --- VerifyWithOptions: which candidate signatures are accepted
					func() {
						surface, variants := "", ""
						defer func() {
							if x := recover(); x != nil {
								if e, ok := x.(error); ok {
									surface = "panic:" + classify(e)
								} else {
									surface = fmt.Sprintf("panic:%v", x)
								}
							}
							emit("VerifyWithOptions", surface, variants)
						}()
						var vs []string
						for _, v := range []string{"pure", "ctx", "ph"} {
							if c, ok := cands[v]; ok && ed25519.VerifyWithOptions(pub, msg, c, &ed25519.Options{Hash: hashes[hc], Context: ctx}) {
								vs = append(vs, v)
							}
						}
						surface, variants = "ok", strings.Join(vs, ",")
					}()
					// --- VerifyBatch (4 entries: the candidates plus a repeat)
					func() {
						surface, variants := "", ""
						defer func() {
							if x := recover(); x != nil {
								surface = "panic"
							}
							emit("VerifyBatch", surface, variants)
						}()
						names := []string{"pure", "ctx", "ph", "pure"}
						keys := make([]ed25519.PublicKey, 4)
						msgs := make([][]byte, 4)
						sigs := make([][]byte, 4)
						for i, v := range names {
							keys[i], msgs[i] = pub, msg
							if c, ok := cands[v]; ok {
								sigs[i] = c
							} else {
								sigs[i] = make([]byte, 64)
							}
						}
						_, valid, err := ed25519.VerifyBatch(r, keys, msgs, sigs, &ed25519.Options{Hash: hashes[hc], Context: ctx})
						if err != nil {
							surface = "error:" + classify(err)
							return
						}
						var vs []string
						for i, v := range names[:3] {
							if valid[i] {
								vs = append(vs, v)
							}
						}
						surface, variants = "ok", strings.Join(vs, ",")
						if len(vs) == 0 {
							surface = "allfalse"
						}
					}()
				}
			}
		}
	}
}

var _ io.Reader = (*countReader)(nil)
