package main

import (
	"bufio"
	"bytes"
	"crypto"
	stded "crypto/ed25519"
	"crypto/sha256"
	"encoding/json"
	"errors"
	"fmt"
	"io"
	"os"

	"github.com/oasisprotocol/ed25519"
	"github.com/oasisprotocol/ed25519/extra/x25519"
	"github.com/oasisprotocol/ed25519/verifharness/hx"
	"github.com/oasisprotocol/ed25519/verifharness/refmodel"
)

func init() { families["api"] = runAPI }

type apiCase struct {
	Fn        string `json:"fn"`
	SeedLen   int    `json:"seedLen"`
	PrivLen   int    `json:"privLen"`
	PubLen    int    `json:"pubLen"`
	SigLen    int    `json:"sigLen"`
	ScalarLen int    `json:"scalarLen"`
	PointLen  int    `json:"pointLen"`
	Style     string `json:"style"`
	Hash      int    `json:"hash"`
	CtxLen    int    `json:"ctxlen"`
	MsgLen    int    `json:"msglen"`
	Alias     string `json:"alias"`
}

// buf is a slice with sentinel-filled spare capacity; snapshot covers the whole backing array.
type buf struct{ s []byte }

func mkbuf(r *hx.Rng, n int, content []byte) buf {
	if n < 0 {
		return buf{nil}
	}
	back := bytes.Repeat([]byte{0xCC}, n+96) // spare capacity beyond any key/signature size: an append or in-place write shows
	if content != nil {
		copy(back, content)
	} else {
		copy(back[:n], r.Bytes(n))
	}
	return buf{back[:n]}
}

func snapshot(bs ...[]byte) [32]byte {
	h := sha256.New()
	for _, b := range bs {
		if b == nil {
			h.Write([]byte{0xff, 0x00})
			continue
		}
		h.Write([]byte{0x01})
		h.Write(b[:cap(b)])
		h.Write([]byte{byte(len(b)), byte(len(b) >> 8)})
	}
	var out [32]byte
	h.Sum(out[:0])
	return out
}

func call(f func() error) (outcome, kind string) {
	defer func() {
		if x := recover(); x != nil {
			outcome, kind = "panic", fmt.Sprint(x)
		}
	}()
	if err := f(); err != nil {
		return "error", err.Error()
	}
	return "return", ""
}

var hashSel = map[int]crypto.Hash{0: crypto.Hash(0), 512: crypto.SHA512, 256: crypto.SHA256, 99: crypto.Hash(99)}

var lowOrderU = [][]byte{
	make([]byte, 32),
	append([]byte{1}, make([]byte, 31)...),
	{0xe0, 0xeb, 0x7a, 0x7c, 0x3b, 0x41, 0xb8, 0xae, 0x16, 0x56, 0xe3, 0xfa, 0xf1, 0x9f, 0xc4, 0x6a, 0xda, 0x09, 0x8d, 0xeb, 0x9c, 0x32, 0xb1, 0xfd, 0x86, 0x62, 0x05, 0x16, 0x5f, 0x49, 0xb8, 0x00},
	{0x5f, 0x9c, 0x95, 0xbc, 0xa3, 0x50, 0x8c, 0x24, 0xb1, 0xd0, 0xb1, 0x55, 0x9c, 0x83, 0xef, 0x5b, 0x04, 0x44, 0x5c, 0xc4, 0x58, 0x1c, 0x8e, 0x86, 0xd8, 0x22, 0x4e, 0xdd, 0xd0, 0x9f, 0x11, 0x57},
	{0xec, 0xff, 0xff, 0xff, 0xff, 0xff, 0xff, 0xff, 0xff, 0xff, 0xff, 0xff, 0xff, 0xff, 0xff, 0xff, 0xff, 0xff, 0xff, 0xff, 0xff, 0xff, 0xff, 0xff, 0xff, 0xff, 0xff, 0xff, 0xff, 0xff, 0xff, 0x7f},
	{0xed, 0xff, 0xff, 0xff, 0xff, 0xff, 0xff, 0xff, 0xff, 0xff, 0xff, 0xff, 0xff, 0xff, 0xff, 0xff, 0xff, 0xff, 0xff, 0xff, 0xff, 0xff, 0xff, 0xff, 0xff, 0xff, 0xff, 0xff, 0xff, 0xff, 0xff, 0x7f},
	{0xee, 0xff, 0xff, 0xff, 0xff, 0xff, 0xff, 0xff, 0xff, 0xff, 0xff, 0xff, 0xff, 0xff, 0xff, 0xff, 0xff, 0xff, 0xff, 0xff, 0xff, 0xff, 0xff, 0xff, 0xff, 0xff, 0xff, 0xff, 0xff, 0xff, 0xff, 0x7f},
}

func runAPI() {
	r := hx.NewRng(*fSeed)
	tr := hx.NewTrace(*fOut)
	defer tr.Close()
	thorough := *fTier == "thorough"
	prop := *fProp

	if prop == "C13" || prop == "" {
		apiShapes(tr, r, thorough)
		convShapes(tr, r)
		batchShapes(tr, r, thorough)
	}
	if prop == "C14" || prop == "" {
		keyObjects(tr, r, thorough)
	}
	fmt.Printf("events=%d\n", tr.Count())
}

func apiShapes(tr *hx.Trace, r *hx.Rng, thorough bool) {
	f, err := os.Open(*fCases)
	if err != nil {
		panic(err)
	}
	defer f.Close()
	sc := bufio.NewScanner(f)
	reps := 1
	if thorough {
		reps = 4
	}
	goodPriv := ed25519.NewKeyFromSeed(r.Bytes(32))
	directed := 0
	for sc.Scan() {
		var c apiCase
		if err := json.Unmarshal(sc.Bytes(), &c); err != nil {
			panic(err)
		}
		for rep := 0; rep < reps; rep++ {
			ev := map[string]interface{}{"op": "api", "fn": c.Fn, "seedLen": c.SeedLen, "privLen": c.PrivLen, "pubLen": c.PubLen, "sigLen": c.SigLen,
				"scalarLen": c.ScalarLen, "pointLen": c.PointLen, "style": c.Style, "hash": c.Hash, "ctxlen": c.CtxLen, "msglen": c.MsgLen,
				"alias": c.Alias, "lowOrder": false, "countMismatch": false, "entropyFail": false, "n": 0, "vecLen": 0, "cfg": *fCfg}
			ctx := string(r.Bytes(c.CtxLen))
			var so crypto.SignerOpts
			opts := &ed25519.Options{Hash: hashSel[c.Hash], Context: ctx, ZIP215Verify: rep%2 == 1}
			if c.Style == "options" {
				so = opts
			} else {
				so = hashSel[c.Hash]
			}
			var bufs [][]byte
			var outcome, kind string
			switch c.Fn {
			case "NewKeyFromSeed":
				seed := mkbuf(r, c.SeedLen, nil)
				bufs = [][]byte{seed.s}
				before := snapshot(bufs...)
				outcome, kind = call(func() error { ed25519.NewKeyFromSeed(seed.s); return nil })
				ev["unchanged"] = before == snapshot(bufs...)
			case "Sign":
				var content []byte
				if c.PrivLen == 64 {
					content = goodPriv
				}
				priv := mkbuf(r, c.PrivLen, content)
				msg := mkbuf(r, c.MsgLen, nil)
				bufs = [][]byte{priv.s, msg.s}
				before := snapshot(bufs...)
				outcome, kind = call(func() error { ed25519.Sign(priv.s, msg.s); return nil })
				ev["unchanged"] = before == snapshot(bufs...)
			case "PrivateKey.Sign":
				var content []byte
				if c.PrivLen == 64 {
					content = goodPriv
				}
				priv := mkbuf(r, c.PrivLen, content)
				msg := mkbuf(r, c.MsgLen, nil)
				bufs = [][]byte{priv.s, msg.s}
				before := snapshot(bufs...)
				outcome, kind = call(func() error { _, err := ed25519.PrivateKey(priv.s).Sign(nil, msg.s, so); return err })
				ev["unchanged"] = before == snapshot(bufs...)
			case "Verify", "VerifyWithOptions":
				// directed contents when the lengths allow it, so that every stage of the pipeline runs:
				// a valid triple; an undecodable R with an admissible S; an undecodable key; S >= L; a small-order R
				msgC := r.Bytes(c.MsgLen)
				var sigC, pubC []byte
				if c.SigLen == 64 && c.PubLen == 32 {
					if s, err := goodPriv.Sign(nil, msgC, &ed25519.Options{Hash: hashSel[c.Hash], Context: ctx}); err == nil {
						sigC, pubC = append([]byte{}, s...), append([]byte{}, goodPriv[32:]...)
						switch directed % 6 {
						case 1:
							u := hx.Undecodable(r)
							copy(sigC[:32], u.Bytes[:])
						case 2:
							u := hx.Undecodable(r)
							pubC = u.Bytes[:]
						case 3:
							sigC[63] |= 0x10
							sigC[62] = 0xff
						case 4:
							so := refmodel.SmallOrderEncodings()
							copy(sigC[:32], so[r.Intn(len(so))][:])
						case 5:
							sigC[5] ^= 1
						}
						directed++
					}
				}
				pub := mkbuf(r, c.PubLen, pubC)
				sig := mkbuf(r, c.SigLen, sigC)
				msg := mkbuf(r, c.MsgLen, msgC)
				switch c.Alias {
				case "msg=sig":
					if sig.s != nil {
						msg.s = sig.s[:min(len(sig.s), c.MsgLen)]
					}
				case "msg=key":
					if pub.s != nil {
						msg.s = pub.s[:min(len(pub.s), c.MsgLen)]
					}
				case "sig=key+msg":
					if pub.s != nil && c.SigLen >= 0 && cap(pub.s) >= c.SigLen {
						sig.s = pub.s[:c.SigLen:cap(pub.s)]
					}
				}
				bufs = [][]byte{pub.s, sig.s, msg.s}
				before := snapshot(bufs...)
				if c.Fn == "Verify" {
					outcome, kind = call(func() error { ed25519.Verify(pub.s, msg.s, sig.s); return nil })
				} else {
					outcome, kind = call(func() error { ed25519.VerifyWithOptions(pub.s, msg.s, sig.s, opts); return nil })
				}
				ev["unchanged"] = before == snapshot(bufs...)
			case "X25519":
				var pc []byte
				low := false
				if c.PointLen == 32 && rep%2 == 1 {
					pc, low = lowOrderU[r.Intn(len(lowOrderU))], true
				}
				scalar := mkbuf(r, c.ScalarLen, nil)
				point := mkbuf(r, c.PointLen, pc)
				ev["lowOrder"] = low && c.ScalarLen == 32
				bufs = [][]byte{scalar.s, point.s}
				before := snapshot(bufs...)
				outcome, kind = call(func() error { _, err := x25519.X25519(scalar.s, point.s); return err })
				ev["unchanged"] = before == snapshot(bufs...)
			default:
				continue
			}
			ev["outcome"], ev["kind"] = outcome, kind
			tr.Emit(ev)
		}
	}
}

// convShapes: the key conversions and the array API must not modify their arguments either.
func convShapes(tr *hx.Trace, r *hx.Rng) {
	base := map[string]interface{}{"op": "api", "seedLen": 0, "privLen": 0, "pubLen": 32, "sigLen": 0, "scalarLen": 32, "pointLen": 32, "style": "options",
		"hash": 0, "ctxlen": 0, "msglen": 0, "alias": "none", "lowOrder": false, "countMismatch": false, "entropyFail": false, "n": 0, "vecLen": 0, "cfg": *fCfg}
	emit := func(fn, outcome, kind string, unchanged bool) {
		ev := map[string]interface{}{"fn": fn, "outcome": outcome, "kind": kind, "unchanged": unchanged}
		for k, v := range base {
			ev[k] = v
		}
		tr.Emit(ev)
	}
	// the base-point fast path of X25519 (taken only for the exported Basepoint slice itself) with unclamped scalars
	for i := 0; i < 12; i++ {
		sc := mkbuf(r, 32, nil)
		sc.s[0] |= byte(1 + i%7)
		sc.s[31] |= 0x80
		if i%2 == 1 {
			sc.s[31] &^= 0x40
		}
		before := snapshot(sc.s, x25519.Basepoint)
		outcome, kind := call(func() error { _, err := x25519.X25519(sc.s, x25519.Basepoint); return err })
		emit("X25519", outcome, kind, before == snapshot(sc.s, x25519.Basepoint))
	}
	for i := 0; i < 24; i++ {
		var content []byte
		switch i % 3 {
		case 0:
			u := hx.Undecodable(r)
			content = u.Bytes[:]
		case 1:
			u := hx.RandomDecodable(r)
			content = u.Bytes[:]
		default:
			so := refmodel.SmallOrderEncodings()
			content = so[r.Intn(len(so))][:]
		}
		pub := mkbuf(r, 32, content)
		before := snapshot(pub.s)
		outcome, kind := call(func() error { x25519.EdPublicKeyToX25519(pub.s); return nil })
		emit("EdPublicKeyToX25519", outcome, kind, before == snapshot(pub.s))
		pk := mkbuf(r, 64, ed25519.NewKeyFromSeed(r.Bytes(32)))
		before = snapshot(pk.s)
		outcome, kind = call(func() error { x25519.EdPrivateKeyToX25519(pk.s); return nil })
		emit("EdPublicKeyToX25519", outcome, kind, before == snapshot(pk.s))
		var in, out [32]byte
		copy(in[:], r.Bytes(32))
		keep := in
		outcome, kind = call(func() error { x25519.ScalarBaseMult(&out, &in); return nil })
		emit("ScalarBaseMult", outcome, kind, keep == in)
	}
}

func readsOrEmpty(r [][]interface{}) [][]interface{} {
	if r == nil {
		return [][]interface{}{}
	}
	return r
}

func min(a, b int) int {
	if a < b {
		return a
	}
	return b
}

type failReader struct{}

func (failReader) Read(p []byte) (int, error) { return 0, errors.New("verif: entropy failure") }

// batchShapes: VerifyBatch never panics on malformed entries; error only for count mismatch,
// over-long context, failing entropy; inputs unmodified.
func batchShapes(tr *hx.Trace, r *hx.Rng, thorough bool) {
	lens := []int{-1, 0, 1, 31, 32, 33, 63, 64, 65, 96}
	reps := 60
	if thorough {
		reps = 600
	}
	good := ed25519.NewKeyFromSeed(r.Bytes(32))
	for rep := 0; rep < reps; rep++ {
		n := []int{0, 1, 2, 3, 4, 5, 64, 65}[r.Intn(8)]
		if n >= 64 && rep%4 != 0 {
			n = 4 + r.Intn(3)
		}
		keys := make([]ed25519.PublicKey, n)
		msgs := make([][]byte, n)
		sigs := make([][]byte, n)
		var bufs [][]byte
		for i := 0; i < n; i++ {
			m := r.Bytes(r.Intn(70))
			if pick := r.Intn(4); pick <= 1 { // well-formed entry, or one that fails deep in the pipeline
				sg := ed25519.Sign(good, m)
				kb := append([]byte{}, good[32:]...)
				if pick == 1 {
					switch r.Intn(3) {
					case 0:
						u := hx.Undecodable(r)
						copy(sg[:32], u.Bytes[:])
					case 1:
						u := hx.Undecodable(r)
						kb = u.Bytes[:]
					default:
						sg[40] ^= 1
					}
				}
				keys[i] = mkbuf(r, 32, kb).s
				msgs[i] = mkbuf(r, len(m), m).s
				sigs[i] = mkbuf(r, 64, sg).s
			} else {
				keys[i] = mkbuf(r, lens[r.Intn(len(lens))], nil).s
				msgs[i] = mkbuf(r, lens[r.Intn(len(lens))], nil).s
				sigs[i] = mkbuf(r, lens[r.Intn(len(lens))], nil).s
			}
			if r.Intn(8) == 0 && sigs[i] != nil { // entries aliasing each other
				msgs[i] = sigs[i]
			}
			bufs = append(bufs, keys[i], msgs[i], sigs[i])
		}
		ctxlen := []int{0, 0, 3, 255, 256}[r.Intn(5)]
		opts := &ed25519.Options{Context: string(r.Bytes(ctxlen)), ZIP215Verify: r.Intn(2) == 0}
		if r.Intn(4) == 0 {
			opts.Hash = crypto.SHA512
		}
		mismatch := r.Intn(6) == 0
		if mismatch {
			switch r.Intn(3) {
			case 0:
				keys = append(keys, mkbuf(r, 32, nil).s)
			case 1:
				msgs = append(msgs, nil)
			default:
				sigs = append(sigs, mkbuf(r, 64, nil).s)
			}
		}
		var rd io.Reader = r
		entropyFail := false
		if r.Intn(6) == 0 {
			rd = failReader{}
			entropyFail = n >= 4 && !mismatch && ctxlen <= 255
		}
		before := snapshot(bufs...)
		vecLen := 0
		outcome, kind := call(func() error {
			_, valid, err := ed25519.VerifyBatch(rd, keys, msgs, sigs, opts)
			vecLen = len(valid)
			return err
		})
		tr.Emit(map[string]interface{}{"op": "api", "fn": "VerifyBatch", "n": n, "ctxlen": ctxlen, "countMismatch": mismatch, "entropyFail": entropyFail,
			"style": "options", "hash": 0, "msglen": 0, "seedLen": 0, "privLen": 0, "pubLen": 0, "sigLen": 0, "scalarLen": 0, "pointLen": 0,
			"alias": "none", "lowOrder": false, "outcome": outcome, "kind": kind, "vecLen": vecLen, "unchanged": before == snapshot(bufs...), "cfg": *fCfg})
	}
}

// meterReader delivers at most avail bytes, chunk bytes per Read, then fails with err (or EOF).
type meterReader struct {
	data        []byte
	chunk       int
	delivered   int
	failWith    error
	errMidAt    int  // > 0: the call that crosses this offset returns its data TOGETHER with failWith; later calls deliver more data
	errWithData bool // deliver the final piece together with the error / EOF in the same call
	zeroOnce    bool // the first call returns (0, nil)
	calls       int
	reads       [][]interface{} // every call: requested, returned, failed
}

func (m *meterReader) Read(p []byte) (n int, err error) {
	defer func() { m.reads = append(m.reads, []interface{}{len(p), n, err != nil}) }()
	return m.read(p)
}

func (m *meterReader) read(p []byte) (int, error) {
	m.calls++
	if m.zeroOnce && m.calls == 1 {
		return 0, nil
	}
	if m.delivered >= len(m.data) {
		if m.failWith != nil {
			return 0, m.failWith
		}
		return 0, io.EOF
	}
	n := len(p)
	if m.chunk > 0 && n > m.chunk {
		n = m.chunk
	}
	if n > len(m.data)-m.delivered {
		n = len(m.data) - m.delivered
	}
	if m.errMidAt > 0 && m.delivered < m.errMidAt && m.delivered+n >= m.errMidAt {
		n = m.errMidAt - m.delivered
		copy(p, m.data[m.delivered:m.delivered+n])
		m.delivered += n
		return n, m.failWith
	}
	copy(p, m.data[m.delivered:m.delivered+n])
	m.delivered += n
	if m.errWithData && m.delivered >= len(m.data) {
		if m.failWith != nil {
			return n, m.failWith
		}
		return n, io.EOF
	}
	return n, nil
}

func keyObjects(tr *hx.Trace, r *hx.Rng, thorough bool) {
	reps := 3
	if thorough {
		reps = 30
	}
	for rep := 0; rep < reps; rep++ {
		// --- GenerateKey on readers of every kind
		for _, rd := range []struct {
			avail, chunk int
			fail         error
		}{{32, 0, nil}, {64, 0, nil}, {33, 0, nil}, {40, 1, nil}, {32, 1, nil}, {32, 31, nil}, {31, 0, nil}, {0, 0, nil}, {1, 0, nil}, {16, 3, nil},
			{31, 0, errors.New("verif: broken reader")}, {5, 1, errors.New("verif: broken reader")}, {100, 7, errors.New("verif: never reached")}} {
			data := r.Bytes(rd.avail)
			m := &meterReader{data: data, chunk: rd.chunk, failWith: rd.fail, errWithData: rep%3 == 1, zeroOnce: rep%3 == 2}
			var pub ed25519.PublicKey
			var priv ed25519.PrivateKey
			var err error
			if guard(tr, "GenerateKey", func() { pub, priv, err = ed25519.GenerateKey(m) }) {
				continue
			}
			coherent := true
			if err == nil && (len(data) < 32 || len(priv) != 64 || len(pub) != 32) {
				coherent = false // a key although the stream ended early, or malformed key objects
			} else if err == nil {
				want := ed25519.NewKeyFromSeed(data[:32])
				coherent = len(priv) == 64 && len(pub) == 32 && bytes.Equal(priv, want) && bytes.Equal(priv[:32], data[:32]) && bytes.Equal(priv[32:], pub) &&
					bytes.Equal(priv.Public().(ed25519.PublicKey), pub)
				std := stded.NewKeyFromSeed(data[:32])
				coherent = coherent && bytes.Equal(std, priv)
				// the returned public key must not alias the private key - neither within the slices nor in their spare capacity
				if len(pub) == 32 && len(priv) == 64 {
					pub[0] ^= 0xff
					coherent = coherent && priv[32] != pub[0]
					pub[0] ^= 0xff
					pubCopy, privCopy := append([]byte{}, pub...), append([]byte{}, priv...)
					fp := priv[:cap(priv)]
					for i := 64; i < len(fp); i++ {
						fp[i] ^= 0xa5 // what append(priv, ...) would overwrite
					}
					fq := pub[:cap(pub)]
					for i := 32; i < len(fq); i++ {
						fq[i] ^= 0x5a
					}
					coherent = coherent && bytes.Equal(pub, pubCopy) && bytes.Equal(priv, privCopy)
				}
			} else {
				coherent = pub == nil && priv == nil && (rd.fail == nil || rd.avail >= 32 || err == rd.fail || err == io.ErrUnexpectedEOF)
				if rd.fail != nil && rd.avail < 32 && rd.avail > 0 && err != rd.fail {
					coherent = false // the reader's own error must be propagated
				}
			}
			tr.Emit(map[string]interface{}{"op": "genkey", "avail": rd.avail, "chunk": rd.chunk, "failing": rd.fail != nil,
				"err": err != nil, "consumed": m.delivered, "hasKey": pub != nil && priv != nil, "coherent": coherent, "reads": readsOrEmpty(m.reads), "cfg": *fCfg})
		}
		// a reader that reports an error together with some data in the middle of the seed and would deliver more afterwards:
		// io.ReadFull stops at the error (fewer than 32 bytes read), so no key may be returned
		for _, at := range []int{1, 10, 31} {
			data := r.Bytes(64)
			m := &meterReader{data: data, chunk: []int{0, 4, 16}[rep%3], failWith: errors.New("verif: transient reader error"), errMidAt: at}
			var pub ed25519.PublicKey
			var priv ed25519.PrivateKey
			var err error
			if guard(tr, "GenerateKey", func() { pub, priv, err = ed25519.GenerateKey(m) }) {
				continue
			}
			tr.Emit(map[string]interface{}{"op": "genkey", "avail": at, "chunk": m.chunk, "failing": true, "err": err != nil, "consumed": m.delivered,
				"hasKey": pub != nil || priv != nil, "coherent": err == m.failWith && pub == nil && priv == nil, "reads": readsOrEmpty(m.reads), "cfg": *fCfg, "kind": "error-with-data-mid-seed"})
		}
		// nil reader: crypto/rand
		pub, priv, err := ed25519.GenerateKey(nil)
		tr.Emit(map[string]interface{}{"op": "genkey", "avail": 32, "chunk": -1, "failing": false, "err": err != nil, "consumed": 32, "reads": [][]interface{}{},
			"hasKey":   pub != nil && priv != nil,
			"coherent": err == nil && bytes.Equal(ed25519.NewKeyFromSeed(priv.Seed()), priv) && bytes.Equal(priv[32:], pub), "cfg": *fCfg})

		// --- a seed with spare capacity: the key must not alias the caller's buffer, which must stay untouched
		{
			buf := bytes.Repeat([]byte{0xCC}, 128)
			copy(buf, r.Bytes(32))
			seed := buf[:32]
			snap := append([]byte{}, buf...)
			k2 := ed25519.NewKeyFromSeed(seed)
			want := stded.NewKeyFromSeed(append([]byte{}, seed...))
			untouched := bytes.Equal(buf, snap)
			for i := range buf { // the caller reuses its buffer
				buf[i] ^= 0x3c
			}
			tr.Emit(map[string]interface{}{"op": "access", "publicOk": bytes.Equal(k2[32:], want[32:]), "seedOk": bytes.Equal(k2[:32], want[:32]),
				"roundTrip": untouched, "fresh": bytes.Equal(k2, want), "what": "NewKeyFromSeed(seed with spare capacity)", "cfg": *fCfg})
		}

		// --- accessors
		k := ed25519.NewKeyFromSeed(r.Bytes(32))
		orig := append([]byte{}, k...)
		p1 := k.Public().(ed25519.PublicKey)
		s1 := k.Seed()
		publicOk, seedOk := bytes.Equal(p1, orig[32:]), bytes.Equal(s1, orig[:32])
		roundTrip := bytes.Equal(ed25519.NewKeyFromSeed(k.Seed()), k)
		for i := range p1 {
			p1[i] ^= 0x5a
		}
		for i := range s1 {
			s1[i] ^= 0xa5
		}
		// appending to the returned slices must not reach the key either (spare capacity aliasing)
		p2 := append(k.Public().(ed25519.PublicKey), 0xEE, 0xEE)
		s2 := append(k.Seed(), 0xEE, 0xEE)
		_, _ = p2, s2
		fresh := bytes.Equal(k, orig) && bytes.Equal(k.Public().(ed25519.PublicKey), orig[32:]) && bytes.Equal(k.Seed(), orig[:32]) && cap(p1) >= 32
		tr.Emit(map[string]interface{}{"op": "access", "publicOk": publicOk, "seedOk": seedOk, "roundTrip": roundTrip, "fresh": fresh, "cfg": *fCfg})

		// --- Equal truth table
		eq := func(sameType bool, a, b []byte, call func() bool, what string) {
			// Equal never panics (it reports inequality for anything that is not an equal key of the same type)
			got, panicked := false, false
			panicked = guard(tr, "Equal ("+what+")", func() { got = call() })
			if panicked {
				return
			}
			tr.Emit(map[string]interface{}{"op": "equal", "sameType": sameType, "a": hx.Ints(a), "b": hx.Ints(b), "got": got, "what": what, "cfg": *fCfg})
		}
		eq(true, k, orig, func() bool { return k.Equal(ed25519.PrivateKey(append([]byte{}, orig...))) }, "priv identical copy")
		for i := 0; i < 64; i++ {
			for _, mask := range []byte{0x01, 0x80} {
				o := append([]byte{}, orig...)
				o[i] ^= mask
				eq(true, k, o, func() bool { return k.Equal(ed25519.PrivateKey(o)) }, "priv one byte differs")
			}
		}
		pk := ed25519.PublicKey(orig[32:])
		eq(true, pk, orig[32:], func() bool { return pk.Equal(ed25519.PublicKey(append([]byte{}, orig[32:]...))) }, "pub identical copy")
		for i := 0; i < 32; i++ {
			o := append([]byte{}, orig[32:]...)
			o[i] ^= 1 << uint(r.Intn(8))
			eq(true, pk, o, func() bool { return pk.Equal(ed25519.PublicKey(o)) }, "pub one byte differs")
		}
		eq(true, k, orig[:63], func() bool { return k.Equal(ed25519.PrivateKey(orig[:63])) }, "priv shorter")
		eq(true, pk, orig[32:63], func() bool { return pk.Equal(ed25519.PublicKey(orig[32:63])) }, "pub shorter")
		eq(true, pk, append(append([]byte{}, orig[32:]...), 0), func() bool { return pk.Equal(ed25519.PublicKey(append(append([]byte{}, orig[32:]...), 0))) }, "pub longer")
		eq(false, k, orig, func() bool { return k.Equal(stded.PrivateKey(orig)) }, "priv vs crypto/ed25519.PrivateKey")
		eq(false, pk, orig[32:], func() bool { return pk.Equal(stded.PublicKey(orig[32:])) }, "pub vs crypto/ed25519.PublicKey")
		eq(false, k, orig, func() bool { return k.Equal([]byte(orig)) }, "priv vs []byte")
		eq(false, pk, orig[32:], func() bool { return pk.Equal(k) }, "pub vs priv")
		eq(false, k, orig, func() bool { return k.Equal(pk) }, "priv vs pub")
		eq(false, k, orig, func() bool { return k.Equal(nil) }, "priv vs nil")
		eq(false, k, orig, func() bool { return k.Equal(&k) }, "priv vs *PrivateKey")
		eq(false, pk, orig[32:], func() bool { return pk.Equal(&pk) }, "pub vs *PublicKey")
		eq(true, k, []byte{}, func() bool { return k.Equal(ed25519.PrivateKey(nil)) }, "priv vs empty PrivateKey")
		eq(true, pk, []byte{}, func() bool { return pk.Equal(ed25519.PublicKey{}) }, "pub vs empty PublicKey")
		eq(true, ed25519.PublicKey{}, []byte{}, func() bool { return ed25519.PublicKey(nil).Equal(ed25519.PublicKey{}) }, "empty pub vs empty pub")
		// views of the key's OWN storage (same first element, other length; a sub-slice starting later; the same storage as another type)
		eq(true, k, k[:63], func() bool { return k.Equal(ed25519.PrivateKey(k[:63])) }, "priv vs a shorter view of itself")
		eq(true, k, k[:32], func() bool { return k.Equal(ed25519.PrivateKey(k[:32])) }, "priv vs its seed half as a view")
		eq(true, k, k[32:], func() bool { return k.Equal(ed25519.PrivateKey(k[32:])) }, "priv vs its public half as a view")
		eq(true, k, k[:64:64], func() bool { return k.Equal(ed25519.PrivateKey(k[:64:64])) }, "priv vs a full view of itself")
		eq(true, pk, pk[:31], func() bool { return pk.Equal(ed25519.PublicKey(pk[:31])) }, "pub vs a shorter view of itself")
		eq(true, pk, pk[:32:32], func() bool { return pk.Equal(ed25519.PublicKey(pk[:32:32])) }, "pub vs a full view of itself")
		eq(true, pk, k[:32], func() bool { return pk.Equal(ed25519.PublicKey(k[:32])) }, "pub vs the seed half of the private key")
		big := append(append([]byte{}, orig...), orig...) // one buffer holding the key twice
		kb := ed25519.PrivateKey(big[:64])
		eq(true, kb, big[:96], func() bool { return kb.Equal(ed25519.PrivateKey(big[:96])) }, "priv vs a longer view of the same buffer")
		eq(true, kb, big[64:], func() bool { return kb.Equal(ed25519.PrivateKey(big[64:])) }, "priv vs an equal key later in the same buffer")
		for _, kk := range []int{1, 8, 16, 31, 32, 33, 48, 63} { // equal in the first kk bytes only
			o := append([]byte{}, orig...)
			for i := kk; i < 64; i++ {
				o[i] ^= 0xff
			}
			eq(true, k, o, func() bool { return k.Equal(ed25519.PrivateKey(o)) }, "priv equal prefix only")
		}
	}
}
