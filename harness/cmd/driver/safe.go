package main

import (
	"crypto"
	"fmt"
	"io"
	"os"
	"time"

	"github.com/oasisprotocol/ed25519"
	"github.com/oasisprotocol/ed25519/verifharness/hx"
)

// The library under test may have been modified: every call into it that the
// drivers do not expect to panic is wrapped; an unexpected panic is recorded as a
// "note" event (reported as a violation by the orchestrator) instead of killing
// the driver.

func note(tr *hx.Trace, what string) {
	tr.Emit(map[string]interface{}{"op": "note", "what": what})
}

func guard(tr *hx.Trace, where string, f func()) (panicked bool) {
	defer func() {
		if x := recover(); x != nil {
			panicked = true
			note(tr, fmt.Sprintf("unexpected panic in %s: %v", where, x))
		}
	}()
	f()
	return false
}

// callTimeout: every library call the drivers make returns within milliseconds (the Bos-Coster loop is model-checked to
// terminate).  A call that has not returned after this long is reported as a note - the orchestrator turns it into a
// violation with the stuck input - and the driver stops, because the stuck goroutine cannot be reclaimed.
var callTimeout = func() time.Duration {
	if v, err := time.ParseDuration(os.Getenv("VERIF_CALL_TIMEOUT")); err == nil && v > 0 {
		return v
	}
	return 240 * time.Second
}()

// watch runs a library call under the watchdog; panics propagate to the caller's own recover as before.
func watch(tr *hx.Trace, where string, f func()) {
	type res struct{ p interface{} }
	done := make(chan res, 1)
	go func() {
		defer func() { done <- res{recover()} }()
		f()
	}()
	select {
	case r := <-done:
		if r.p != nil {
			panic(r.p)
		}
	case <-time.After(callTimeout):
		note(tr, fmt.Sprintf("%s did not return within %s", where, callTimeout))
		hx.FlushAll()
		fmt.Printf("events=%d (stopped: a library call did not return)\n", tr.Count())
		os.Exit(0)
	}
}

func sVerify(tr *hx.Trace, key ed25519.PublicKey, msg, sig []byte) (ok bool) {
	guard(tr, "Verify", func() { ok = ed25519.Verify(key, msg, sig) })
	return
}

func sVerifyOpts(tr *hx.Trace, key ed25519.PublicKey, msg, sig []byte, o *ed25519.Options) (ok bool) {
	guard(tr, "VerifyWithOptions", func() { ok = ed25519.VerifyWithOptions(key, msg, sig, o) })
	return
}

func sBatch(tr *hx.Trace, rand io.Reader, keys []ed25519.PublicKey, msgs, sigs [][]byte, o *ed25519.Options) (ok bool, valid []bool, err error) {
	if guard(tr, "VerifyBatch", func() { ok, valid, err = ed25519.VerifyBatch(rand, keys, msgs, sigs, o) }) || err != nil || len(valid) != len(keys) {
		if err != nil {
			note(tr, "unexpected error from VerifyBatch: "+err.Error())
		} else if len(valid) != len(keys) {
			note(tr, "VerifyBatch returned a result vector of the wrong length")
		}
		return false, make([]bool, len(keys)), nil
	}
	return
}

func sSign(tr *hx.Trace, priv ed25519.PrivateKey, rand io.Reader, msg []byte, o crypto.SignerOpts) (sig []byte, err error) {
	if guard(tr, "PrivateKey.Sign", func() { sig, err = priv.Sign(rand, msg, o) }) {
		return make([]byte, 64), nil
	}
	return
}

func sNewKey(tr *hx.Trace, seed []byte) (priv ed25519.PrivateKey) {
	if guard(tr, "NewKeyFromSeed", func() { priv = ed25519.NewKeyFromSeed(seed) }) {
		return make([]byte, 64)
	}
	return
}
