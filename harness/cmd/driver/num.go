package main

import (
	"bytes"
	"encoding/binary"
	"fmt"
	"math/big"

	"github.com/oasisprotocol/ed25519/internal/curve25519"
	"github.com/oasisprotocol/ed25519/internal/ge25519"
	"github.com/oasisprotocol/ed25519/internal/modm"
	"github.com/oasisprotocol/ed25519/verifharness/hx"
	"github.com/oasisprotocol/ed25519/verifharness/refmodel"
)

func init() { families["num"] = runNum }

func fLayout() string {
	if len(curve25519.Bignum25519{}) == 5 {
		return "f51"
	}
	return "f2526"
}

func mLayout() string {
	if modm.LimbSize == 5 {
		return "m56"
	}
	return "m30"
}

func fLimbs(b *curve25519.Bignum25519) [][]int {
	out := make([][]int, len(b))
	for i := range b {
		var w [8]byte
		binary.LittleEndian.PutUint64(w[:], uint64(b[i]))
		out[i] = hx.Ints(w[:])
	}
	return out
}

func mLimbs(b *modm.Bignum256) [][]int {
	out := make([][]int, len(b))
	for i := range b {
		var w [8]byte
		binary.LittleEndian.PutUint64(w[:], uint64(b[i]))
		out[i] = hx.Ints(w[:])
	}
	return out
}

func feFromBytes(b []byte) curve25519.Bignum25519 {
	var out curve25519.Bignum25519
	curve25519.Expand(&out, b)
	return out
}

// edgeBytes returns 32-byte strings whose field limbs (either layout) sit at 0 / 1 / mask-1 / mask,
// the encodings of 0, 1, p-1, p, p+1, 2^255-1, and random strings.
func edgeBytes(r *hx.Rng, n int) [][]byte {
	var out [][]byte
	P := refmodel.P
	for _, v := range []*big.Int{big.NewInt(0), big.NewInt(1), big.NewInt(2), big.NewInt(19), new(big.Int).Sub(P, big.NewInt(1)), P, new(big.Int).Add(P, big.NewInt(1)),
		new(big.Int).Add(P, big.NewInt(18)), new(big.Int).Sub(new(big.Int).Lsh(big.NewInt(1), 255), big.NewInt(1)), new(big.Int).Sub(P, big.NewInt(2))} {
		out = append(out, refmodel.LE(v, 32))
	}
	// limb patterns for both layouts: boundaries at multiples of 51 and at the 26/25 offsets
	for _, offs := range [][]uint{{0, 51, 102, 153, 204, 255}, {0, 26, 51, 77, 102, 128, 153, 179, 204, 230, 255}} {
		nl := len(offs) - 1
		for rep := 0; rep < n; rep++ {
			v := new(big.Int)
			for i := 0; i < nl; i++ {
				width := offs[i+1] - offs[i]
				mask := new(big.Int).Sub(new(big.Int).Lsh(big.NewInt(1), width), big.NewInt(1))
				var limb *big.Int
				switch r.Intn(6) {
				case 0:
					limb = big.NewInt(0)
				case 1:
					limb = mask
				case 2:
					limb = new(big.Int).Sub(mask, big.NewInt(1))
				case 3:
					limb = big.NewInt(1)
				case 4:
					limb = new(big.Int).Sub(mask, big.NewInt(18))
				default:
					limb = new(big.Int).And(refmodel.FromLE(r.Bytes(8)), mask)
				}
				v.Or(v, new(big.Int).Lsh(limb, offs[i]))
			}
			out = append(out, refmodel.LE(v, 32))
		}
	}
	for i := 0; i < n; i++ {
		b := r.Bytes(32)
		out = append(out, b)
	}
	return out
}

type fe = curve25519.Bignum25519

func runNum() {
	r := hx.NewRng(*fSeed)
	tr := hx.NewTrace(*fOut)
	defer tr.Close()
	thorough := *fTier == "thorough"
	prop := *fProp
	if prop == "C18" || prop == "C08" || prop == "" {
		fieldEvents(tr, r, thorough)
	}
	if prop == "C19" || prop == "C08" || prop == "" {
		scalarEvents(tr, r, thorough)
	}
	if prop == "C16" || prop == "C08" || prop == "" {
		groupEvents(tr, r, thorough)
	}
	fmt.Printf("events=%d\n", tr.Count())
}

func fieldEvents(tr *hx.Trace, r *hx.Rng, thorough bool) {
	ly := fLayout()
	cfg := *fCfg
	n := 6
	if thorough {
		n = 60
	}
	ins := edgeBytes(r, n)
	emit := func(f string, a, b, out *fe, extra map[string]interface{}) {
		ev := map[string]interface{}{"op": "field", "f": f, "layout": ly, "a": fLimbs(a), "b": [][]int{}, "out": [][]int{}, "cfg": cfg}
		if b != nil {
			ev["b"] = fLimbs(b)
		}
		if out != nil {
			ev["out"] = fLimbs(out)
		}
		for k, v := range extra {
			ev[k] = v
		}
		tr.Emit(ev)
	}
	pick := func() fe { return feFromBytes(ins[r.Intn(len(ins))]) }

	// Expand / Contract on every edge input
	for _, b := range ins {
		x := feFromBytes(b)
		emit("Expand", &x, nil, &x, map[string]interface{}{"bytes": hx.Ints(b)})
		var out [32]byte
		curve25519.Contract(out[:], &x)
		emit("Contract", &x, nil, nil, map[string]interface{}{"bytes": hx.Ints(out[:])})
		hi := append([]byte{}, b...)
		hi[31] |= 0x80
		y := feFromBytes(hi)
		emit("Expand", &y, nil, &y, map[string]interface{}{"bytes": hx.Ints(hi)})
	}

	// operand classes as the group-law code produces them:
	//   R  reduced (Expand / Mul / Square / AddReduce / SubReduce / Neg outputs)
	//   A1 = Add(R, R), S1 = Sub(R, R), AB = AddAfterBasic(A1, R), SB = SubAfterBasic(A1|R, R|A1|S1)
	// the carried forms (AddReduce / SubReduce, bias 4p) and the after-basic forms on the LARGEST operands their contract
	// admits: results of one Add / Sub of elements whose limbs are all at their mask, against small minuends
	{
		ones := bytes.Repeat([]byte{0xff}, 32)
		maxR, zero, one := feFromBytes(ones), feFromBytes(make([]byte, 32)), feFromBytes(append([]byte{1}, make([]byte, 31)...))
		var a1max, s1max, o fe
		curve25519.Add(&a1max, &maxR, &maxR)
		curve25519.Sub(&s1max, &maxR, &zero)
		smalls := []*fe{&zero, &one, &maxR}
		bigs := []*fe{&a1max, &s1max, &maxR}
		for _, x := range smalls {
			for _, y := range bigs {
				curve25519.SubReduce(&o, x, y)
				emit("SubReduce", x, y, &o, nil)
				curve25519.SubAfterBasic(&o, x, y)
				emit("SubAfterBasic", x, y, &o, nil)
				curve25519.AddReduce(&o, x, y)
				emit("AddReduce", x, y, &o, nil)
				curve25519.AddAfterBasic(&o, x, y)
				emit("AddAfterBasic", x, y, &o, nil)
				curve25519.SubReduce(&o, y, x)
				emit("SubReduce", y, x, &o, nil)
			}
		}
		curve25519.SubReduce(&o, &a1max, &s1max)
		emit("SubReduce", &a1max, &s1max, &o, nil)
		curve25519.SubReduce(&o, &s1max, &a1max)
		emit("SubReduce", &s1max, &a1max, &o, nil)
		curve25519.Sub(&o, &zero, &maxR)
		emit("Sub", &zero, &maxR, &o, nil)
		curve25519.Neg(&o, &maxR)
		emit("Neg", &maxR, nil, &o, nil)
	}
	rounds := 40
	if thorough {
		rounds = 600
	}
	for it := 0; it < rounds; it++ {
		R1, R2, R3, R4 := pick(), pick(), pick(), pick()
		if it%5 == 0 { // reduced values that are outputs of Mul (limb 1 may exceed its mask slightly)
			var t fe
			curve25519.Mul(&t, &R1, &R2)
			R3 = t
			curve25519.Square(&t, &R2)
			R4 = t
		}
		var A1, S1, AB, SB, SB2, SB3, o, o2 fe
		curve25519.Add(&A1, &R1, &R2)
		emit("Add", &R1, &R2, &A1, nil)
		curve25519.Sub(&S1, &R3, &R4)
		emit("Sub", &R3, &R4, &S1, nil)
		curve25519.AddAfterBasic(&AB, &A1, &R3)
		emit("AddAfterBasic", &A1, &R3, &AB, nil)
		curve25519.SubAfterBasic(&SB, &A1, &R3)
		emit("SubAfterBasic", &A1, &R3, &SB, nil)
		curve25519.SubAfterBasic(&SB2, &R3, &A1)
		emit("SubAfterBasic", &R3, &A1, &SB2, nil)
		curve25519.SubAfterBasic(&SB3, &R4, &S1)
		emit("SubAfterBasic", &R4, &S1, &SB3, nil)
		curve25519.AddReduce(&o, &R1, &R2)
		emit("AddReduce", &R1, &R2, &o, nil)
		curve25519.SubReduce(&o, &R1, &R2)
		emit("SubReduce", &R1, &R2, &o, nil)
		curve25519.SubReduce(&o, &R3, &A1) // bias 4p: an Add / Sub result may be subtracted
		emit("SubReduce", &R3, &A1, &o, nil)
		curve25519.SubReduce(&o, &R4, &S1)
		emit("SubReduce", &R4, &S1, &o, nil)
		curve25519.AddReduce(&o, &A1, &S1)
		emit("AddReduce", &A1, &S1, &o, nil)
		curve25519.Neg(&o, &R1)
		emit("Neg", &R1, nil, &o, nil)
		ops := []*fe{&R1, &R2, &A1, &S1, &AB, &SB, &SB2, &SB3}
		for k := 0; k < 6; k++ {
			x, y := ops[r.Intn(len(ops))], ops[r.Intn(len(ops))]
			curve25519.Mul(&o, x, y)
			emit("Mul", x, y, &o, nil)
			curve25519.Square(&o, x)
			emit("Square", x, nil, &o, nil)
		}
		// in-place (aliased) use, as the code does: Mul(a, a, t), Square(r.x, r.x), Add(d, d, d)
		x := A1
		curve25519.Mul(&x, &x, &S1)
		emit("Mul", &A1, &S1, &x, map[string]interface{}{"aliased": true})
		x = SB
		curve25519.Square(&x, &x)
		emit("Square", &SB, nil, &x, map[string]interface{}{"aliased": true})
		x = R1
		curve25519.Add(&x, &x, &x)
		emit("Add", &R1, &R1, &x, map[string]interface{}{"aliased": true})
		cnt := []int{1, 2, 5, 10, 20, 50, 100}[it%7]
		curve25519.SquareTimes(&o, &S1, cnt)
		emit("SquareTimes", &S1, nil, &o, map[string]interface{}{"n": cnt})
		if it%4 == 0 {
			for _, z := range []*fe{&R1, &S1, &A1} {
				curve25519.Recip(&o, z)
				emit("Recip", z, nil, &o, nil)
				curve25519.PowTwo252m3(&o, z)
				zv := new(big.Int).Mod(limbsToBig(z), refmodel.P)
				e := new(big.Int).Sub(new(big.Int).Lsh(big.NewInt(1), 252), big.NewInt(3))
				emit("PowTwo252m3", z, nil, &o, map[string]interface{}{"expected": hx.Ints(refmodel.LE(new(big.Int).Exp(zv, e, refmodel.P), 32))})
			}
		}
		flag := uint64(it % 2)
		o, o2 = R1, A1
		curve25519.SwapConditional(&o, &o2, flag)
		emit("SwapConditional", &R1, &A1, &o, map[string]interface{}{"flag": int(flag), "out2": fLimbs(&o2)})
		var cb [32]byte
		curve25519.Contract(cb[:], &R3)
		emit("Contract", &R3, nil, nil, map[string]interface{}{"bytes": hx.Ints(cb[:])})
		// serialisation of every internal representation: unreduced classes too
		for _, x := range []*fe{&A1, &S1, &AB, &SB, &SB2, &SB3} {
			curve25519.Contract(cb[:], x)
			emit("Contract", x, nil, nil, map[string]interface{}{"bytes": hx.Ints(cb[:])})
		}
	}
	// small values in unreduced form: a - b and a + b for small a, b (the representation is 2p + r, 4p + r, ...),
	// and values around p and 2p: the canonicalisation must fold every carry
	for d := int64(0); d < 96; d++ {
		a := feFromBytes(refmodel.LE(big.NewInt(d), 32))
		b := feFromBytes(refmodel.LE(big.NewInt(d/3), 32))
		z := feFromBytes(make([]byte, 32))
		pm := feFromBytes(refmodel.LE(new(big.Int).Sub(refmodel.P, big.NewInt(d)), 32))
		var o fe
		var cb [32]byte
		for k, pr := range [][2]*fe{{&a, &z}, {&a, &b}, {&z, &a}, {&pm, &a}, {&a, &pm}, {&pm, &pm}} {
			curve25519.Sub(&o, pr[0], pr[1])
			curve25519.Contract(cb[:], &o)
			emit("Contract", &o, nil, nil, map[string]interface{}{"bytes": hx.Ints(cb[:]), "form": fmt.Sprintf("Sub#%d", k)})
			curve25519.SubAfterBasic(&o, pr[0], pr[1])
			curve25519.Contract(cb[:], &o)
			emit("Contract", &o, nil, nil, map[string]interface{}{"bytes": hx.Ints(cb[:]), "form": fmt.Sprintf("SubAfterBasic#%d", k)})
			curve25519.Add(&o, pr[0], pr[1])
			curve25519.Contract(cb[:], &o)
			emit("Contract", &o, nil, nil, map[string]interface{}{"bytes": hx.Ints(cb[:]), "form": fmt.Sprintf("Add#%d", k)})
			var o2 fe
			curve25519.Add(&o2, &o, &o)
			curve25519.AddAfterBasic(&o2, &o2, pr[0])
			curve25519.Contract(cb[:], &o2)
			emit("Contract", &o2, nil, nil, map[string]interface{}{"bytes": hx.Ints(cb[:]), "form": fmt.Sprintf("AddAfterBasic#%d", k)})
		}
	}
	// zero and the identities
	var z, o fe
	curve25519.Recip(&o, &z)
	emit("Recip", &z, nil, &o, nil)
}

func scalarEvents(tr *hx.Trace, r *hx.Rng, thorough bool) {
	ly := mLayout()
	cfg := *fCfg
	L := refmodel.L
	emit := func(f string, extra map[string]interface{}) {
		ev := map[string]interface{}{"op": "scalar", "f": f, "layout": ly, "cfg": cfg}
		for k, v := range extra {
			ev[k] = v
		}
		tr.Emit(ev)
	}
	// inputs to reduction: k*L + delta for every quotient size, values near 2^252, 2^253, 2^256, 2^512, all-ones, random
	var wide []*big.Int
	two := func(n uint) *big.Int { return new(big.Int).Lsh(big.NewInt(1), n) }
	for _, kbits := range []uint{0, 1, 2, 3, 4, 8, 64, 128, 200, 250, 255, 258, 259, 260} {
		for rep := 0; rep < 2; rep++ {
			k := new(big.Int).Rsh(refmodel.FromLE(r.Bytes(40)), 320-kbits)
			if kbits == 0 {
				k = big.NewInt(int64(rep))
			}
			base := new(big.Int).Mul(k, L)
			for _, d := range []int64{-2, -1, 0, 1, 2} {
				v := new(big.Int).Add(base, big.NewInt(d))
				if v.Sign() >= 0 && v.BitLen() <= 512 {
					wide = append(wide, v)
				}
			}
			v := new(big.Int).Add(base, new(big.Int).Mod(refmodel.FromLE(r.Bytes(40)), L))
			if v.BitLen() <= 512 {
				wide = append(wide, v)
			}
		}
	}
	for _, n := range []uint{252, 253, 255, 256, 257, 264, 504, 511, 512} {
		for _, d := range []int64{-2, -1, 0, 1} {
			v := new(big.Int).Add(two(n), big.NewInt(d))
			if v.BitLen() <= 512 {
				wide = append(wide, v)
			}
		}
	}
	for _, q := range []int64{2, 3, 15, 16} { // exactly q*L and q*L - 1 (conditional subtractions at L and 2L-1)
		wide = append(wide, new(big.Int).Mul(big.NewInt(q), L), new(big.Int).Sub(new(big.Int).Mul(big.NewInt(q), L), big.NewInt(1)))
	}
	nr := 600
	if thorough {
		nr = 10000
	}
	for i := 0; i < nr; i++ {
		wide = append(wide, refmodel.FromLE(r.Bytes(64)), refmodel.FromLE(r.Bytes(32)))
	}
	for _, v := range wide {
		size := 64
		if v.BitLen() <= 256 && r.Intn(2) == 0 {
			size = 32
		}
		if v.BitLen() <= 256 && r.Intn(8) == 0 {
			size = 32 + r.Intn(33)
		}
		b := refmodel.LE(v, size)
		var out modm.Bignum256
		modm.Expand(&out, b)
		emit("Expand", map[string]interface{}{"bytes": hx.Ints(b), "out": mLimbs(&out)})
		if v.BitLen() <= 256 {
			b32 := refmodel.LE(v, 32)
			modm.ExpandRaw(&out, b32)
			emit("ExpandRaw", map[string]interface{}{"bytes": hx.Ints(b32), "out": mLimbs(&out)})
		}
	}
	for _, n := range []int{0, 1, 8, 16, 31} { // short inputs skip the reduction
		b := r.Bytes(n)
		var out modm.Bignum256
		modm.Expand(&out, b)
		emit("Expand", map[string]interface{}{"bytes": hx.Ints(b), "out": mLimbs(&out)})
	}
	// Add / Mul / Contract / reduce on pairs in [0, L)^2 incl. the edges
	edges := []*big.Int{big.NewInt(0), big.NewInt(1), big.NewInt(2), new(big.Int).Sub(L, big.NewInt(1)), new(big.Int).Sub(L, big.NewInt(2)),
		new(big.Int).Rsh(L, 1), new(big.Int).Add(new(big.Int).Rsh(L, 1), big.NewInt(1)), two(252), new(big.Int).Sub(two(252), big.NewInt(1)), two(128), two(251)}
	np := 1500
	if thorough {
		np = 20000
	}
	var pairs [][2]*big.Int
	for _, x := range edges {
		for _, y := range edges {
			pairs = append(pairs, [2]*big.Int{x, y})
		}
	}
	for i := 0; i < np; i++ {
		pairs = append(pairs, [2]*big.Int{r.Scalar(), r.Scalar()}, [2]*big.Int{r.Scalar(), edges[r.Intn(len(edges))]})
	}
	for _, pr := range pairs {
		var x, y, o modm.Bignum256
		modm.ExpandRaw(&x, refmodel.LE(pr[0], 32))
		modm.ExpandRaw(&y, refmodel.LE(pr[1], 32))
		modm.Add(&o, &x, &y)
		emit("Add", map[string]interface{}{"a": mLimbs(&x), "b": mLimbs(&y), "out": mLimbs(&o)})
		modm.Mul(&o, &x, &y)
		emit("Mul", map[string]interface{}{"a": mLimbs(&x), "b": mLimbs(&y), "out": mLimbs(&o)})
		var cb [32]byte
		modm.Contract(cb[:], &o)
		emit("Contract", map[string]interface{}{"a": mLimbs(&o), "bytes": hx.Ints(cb[:])})
		// reduce: r < 2L
		s := new(big.Int).Add(pr[0], pr[1])
		var rr modm.Bignum256
		modm.ExpandRaw(&rr, refmodel.LE(s, 32))
		in := rr
		modm.VerifReduce(&rr)
		emit("Reduce", map[string]interface{}{"a": mLimbs(&in), "out": mLimbs(&rr)})
	}
	// barrettReduce on operands chosen INDEPENDENTLY (q1 and r1 are two random 264-bit numbers, not the halves of one 512-bit
	// number): the result then depends on the truncated product, the cuts and the borrow chains - it is predicted limb for
	// limb by the limb-level transcription (ModmLimbsBig); also on consistent pairs
	{
		w := uint(56)
		if modm.LimbSize != 5 {
			w = 30
		}
		fill := func(v *big.Int) modm.Bignum256 { // limbs of a 264-bit number, the top limb takes the rest
			var out modm.Bignum256
			mask := new(big.Int).Sub(new(big.Int).Lsh(big.NewInt(1), w), big.NewInt(1))
			for i := 0; i < modm.LimbSize; i++ {
				l := new(big.Int).Rsh(v, w*uint(i))
				if i < modm.LimbSize-1 {
					l.And(l, mask)
				}
				out[i] = modm.Element(l.Uint64())
			}
			return out
		}
		nb := 60
		if thorough {
			nb = 1500
		}
		two264 := new(big.Int).Lsh(big.NewInt(1), 264)
		for i := 0; i < nb; i++ {
			var qv, rv *big.Int
			switch i % 4 {
			case 0: // consistent: the two halves of one 512-bit number
				x := refmodel.FromLE(r.Bytes(64))
				qv, rv = new(big.Int).Rsh(x, 248), new(big.Int).Mod(x, two264)
			case 1: // extreme
				qv = new(big.Int).Sub(two264, big.NewInt(1))
				rv = refmodel.FromLE(r.Bytes(33))
			default:
				qv, rv = refmodel.FromLE(r.Bytes(33)), refmodel.FromLE(r.Bytes(33))
			}
			q1, r1 := fill(qv), fill(rv)
			var o modm.Bignum256
			if guard(tr, "barrettReduce", func() { modm.VerifBarrettReduce(&o, &q1, &r1) }) {
				continue
			}
			emit("Barrett", map[string]interface{}{"a": mLimbs(&q1), "b": mLimbs(&r1), "out": mLimbs(&o), "consistent": i%4 == 0})
		}
	}
	// recodings
	var w4 []*big.Int
	for pos := 0; pos < 64; pos += 3 {
		for _, v := range []int64{7, 8, 9, 15} {
			for _, nb := range []byte{0x00, 0x77, 0x88, 0xff} {
				b := bytes.Repeat([]byte{nb}, 32)
				if pos%2 == 0 {
					b[pos/2] = b[pos/2]&0xf0 | byte(v)
				} else {
					b[pos/2] = b[pos/2]&0x0f | byte(v)<<4
				}
				b[31] &= 0x7f
				w4 = append(w4, refmodel.FromLE(b))
			}
		}
	}
	w4 = append(w4, big.NewInt(0), big.NewInt(1), big.NewInt(8), new(big.Int).Sub(two(255), big.NewInt(1)), two(254), new(big.Int).Sub(L, big.NewInt(1)), L)
	nw := 30
	if thorough {
		nw = 1000
	}
	for i := 0; i < nw; i++ {
		w4 = append(w4, new(big.Int).Rsh(refmodel.FromLE(r.Bytes(32)), 1), refmodel.Clamp(r.Bytes(32)))
	}
	for _, v := range w4 {
		var s modm.Bignum256
		modm.ExpandRaw(&s, refmodel.LE(v, 32))
		var d [64]int8
		modm.ContractWindow4(&d, &s)
		ds := make([]int, 64)
		for i := range d {
			ds[i] = int(d[i])
		}
		emit("ContractWindow4", map[string]interface{}{"a": mLimbs(&s), "digits": ds})
	}
	var sw []*big.Int
	sw = append(sw, big.NewInt(0), big.NewInt(1), big.NewInt(2), big.NewInt(31), big.NewInt(32), big.NewInt(33), new(big.Int).Sub(L, big.NewInt(1)),
		new(big.Int).Sub(two(253), big.NewInt(1)), new(big.Int).Sub(two(252), big.NewInt(1)), two(252), new(big.Int).Sub(two(128), big.NewInt(1)))
	for _, pat := range []byte{0x55, 0xaa, 0x33, 0xcc, 0x0f, 0xf0, 0x7f, 0xfe, 0xff} {
		b := bytes.Repeat([]byte{pat}, 32)
		b[31] &= 0x1f
		sw = append(sw, refmodel.FromLE(b))
	}
	for i := 0; i < nw; i++ {
		sw = append(sw, r.Scalar())
	}
	for _, v := range sw {
		for _, w := range []uint{5, 7} {
			var s modm.Bignum256
			modm.ExpandRaw(&s, refmodel.LE(v, 32))
			var d [256]int8
			modm.ContractSlidingWindow(&d, &s, w)
			ds := make([]int, 256)
			for i := range d {
				ds[i] = int(d[i])
			}
			emit("ContractSlidingWindow", map[string]interface{}{"a": mLimbs(&s), "digits": ds, "w": int(w)})
		}
	}
	// vartime helpers (batch verification)
	nh := 60
	if thorough {
		nh = 1500
	}
	for i := 0; i < nh; i++ {
		ls := r.Intn(modm.LimbSize)
		av, bv := r.Scalar(), r.Scalar()
		switch i % 6 {
		case 0:
			bv = av
		case 1:
			bv = new(big.Int).Add(av, big.NewInt(1))
		case 2:
			av = new(big.Int).Rsh(av, uint(r.Intn(250)))
			bv = new(big.Int).Rsh(bv, uint(r.Intn(250)))
		case 3: // equal on the compared limbs, different above
			bits := uint(modm.BitsPerLimb * (ls + 1))
			if bits < 250 {
				bv = new(big.Int).Xor(av, two(bits+uint(r.Intn(int(250-bits)))))
			}
		}
		var a, b, o modm.Bignum256
		modm.ExpandRaw(&a, refmodel.LE(av, 32))
		modm.ExpandRaw(&b, refmodel.LE(bv, 32))
		fl := func(x bool) int {
			if x {
				return 1
			}
			return 0
		}
		emit("LessThanVartime", map[string]interface{}{"a": mLimbs(&a), "b": mLimbs(&b), "ls": ls, "flag": fl(modm.LessThanVartime(&a, &b, ls))})
		emit("LessThanOrEqualVartime", map[string]interface{}{"a": mLimbs(&a), "b": mLimbs(&b), "ls": ls, "flag": fl(modm.LessThanOrEqualVartime(&a, &b, ls))})
		// SubVartime needs a >= b on the compared limbs
		mask := new(big.Int).Sub(two(uint(modm.BitsPerLimb*(ls+1))), big.NewInt(1))
		at, bt := new(big.Int).And(av, mask), new(big.Int).And(bv, mask)
		if at.Cmp(bt) < 0 {
			at, bt = bt, at
		}
		modm.ExpandRaw(&a, refmodel.LE(at, 32))
		modm.ExpandRaw(&b, refmodel.LE(bt, 32))
		modm.SubVartime(&o, &a, &b, ls)
		emit("SubVartime", map[string]interface{}{"a": mLimbs(&a), "b": mLimbs(&b), "ls": ls, "out": mLimbs(&o)})
		var z modm.Bignum256
		modm.ExpandRaw(&z, refmodel.LE(new(big.Int).Rsh(av, uint(125+r.Intn(10))), 32))
		emit("IsAtMost128bitsVartime", map[string]interface{}{"a": mLimbs(&z), "flag": fl(modm.IsAtMost128bitsVartime(&z))})
		var sm modm.Bignum256
		modm.ExpandRaw(&sm, refmodel.LE(big.NewInt(int64(i%3)), 32))
		if i%7 == 0 {
			modm.ExpandRaw(&sm, refmodel.LE(two(uint(56*r.Intn(4)+r.Intn(3))), 32))
		}
		emit("IsZeroVartime", map[string]interface{}{"a": mLimbs(&sm), "flag": fl(modm.IsZeroVartime(&sm))})
		emit("IsOneVartime", map[string]interface{}{"a": mLimbs(&sm), "flag": fl(modm.IsOneVartime(&sm))})
	}
	for _, e := range []uint{127, 128, 129} {
		for _, d := range []int64{-1, 0, 1} {
			var z modm.Bignum256
			modm.ExpandRaw(&z, refmodel.LE(new(big.Int).Add(two(e), big.NewInt(d)), 32))
			f := 0
			if modm.IsAtMost128bitsVartime(&z) {
				f = 1
			}
			emit("IsAtMost128bitsVartime", map[string]interface{}{"a": mLimbs(&z), "flag": f})
		}
	}
}

func groupEvents(tr *hx.Trace, r *hx.Rng, thorough bool) {
	cfg := *fCfg
	emit := func(f string, extra map[string]interface{}) {
		ev := map[string]interface{}{"op": "group", "f": f, "cfg": cfg}
		for k, v := range extra {
			ev[k] = v
		}
		tr.Emit(ev)
	}
	contract := func(x *fe) []int {
		var b [32]byte
		curve25519.Contract(b[:], x)
		return hx.Ints(b[:])
	}
	// the selector on its complete domain: 32 positions x 17 digits
	for pos := 0; pos < 32; pos++ {
		for b := -8; b <= 8; b++ {
			var t ge25519.VerifNiels
			if guard(tr, "scalarmultBaseChooseNiels", func() { ge25519.VerifChooseNiels(&t, &ge25519.NielsBaseMultiples, pos, int8(b)) }) {
				continue
			}
			k := new(big.Int).Lsh(big.NewInt(int64(b)), uint(8*pos))
			k.Mod(k, refmodel.L)
			x, y := refmodel.BaseMul(k).Affine()
			emit("choose", map[string]interface{}{"pos": pos, "b": b, "ysubx": contract(&t.YsubX), "xaddy": contract(&t.XaddY), "t2d": contract(&t.T2d),
				"ex": hx.Ints(refmodel.LE(x, 32)), "ey": hx.Ints(refmodel.LE(y, 32)), "k": hx.Ints(refmodel.LE(k, 32))})
		}
	}
	// the precomputed odd multiples of B used by the double-base multiplication: entry i = [2i+1]B in niels form
	for i := 0; i < 32; i++ {
		t := ge25519.VerifNielsSlidingMultiple(i)
		k := big.NewInt(int64(2*i + 1))
		x, y := refmodel.BaseMul(k).Affine()
		emit("slidingtable", map[string]interface{}{"i": i, "ysubx": contract(&t.YsubX), "xaddy": contract(&t.XaddY), "t2d": contract(&t.T2d),
			"ex": hx.Ints(refmodel.LE(x, 32)), "ey": hx.Ints(refmodel.LE(y, 32)), "k": hx.Ints(refmodel.LE(k, 32))})
	}
	// fixed-base multiplication
	var scalars []*big.Int
	two := func(n uint) *big.Int { return new(big.Int).Lsh(big.NewInt(1), n) }
	scalars = append(scalars, big.NewInt(0), big.NewInt(1), big.NewInt(2), big.NewInt(8), big.NewInt(16), new(big.Int).Sub(refmodel.L, big.NewInt(1)), refmodel.L,
		new(big.Int).Add(refmodel.L, big.NewInt(1)), new(big.Int).Sub(two(255), big.NewInt(1)), two(254), new(big.Int).Sub(two(252), big.NewInt(1)))
	for pos := 0; pos < 64; pos += 5 {
		for _, v := range []int64{7, 8, 9, 15} {
			for _, nb := range []byte{0x00, 0x77, 0x88, 0xff} {
				b := bytes.Repeat([]byte{nb}, 32)
				if pos%2 == 0 {
					b[pos/2] = b[pos/2]&0xf0 | byte(v)
				} else {
					b[pos/2] = b[pos/2]&0x0f | byte(v)<<4
				}
				b[31] &= 0x7f
				scalars = append(scalars, refmodel.FromLE(b))
			}
		}
	}
	n := 30
	if thorough {
		n = 800
	}
	for i := 0; i < n; i++ {
		scalars = append(scalars, r.Scalar(), refmodel.Clamp(r.Bytes(32)))
	}
	for _, s := range scalars {
		var sc modm.Bignum256
		modm.ExpandRaw(&sc, refmodel.LE(s, 32))
		var P ge25519.Ge25519
		if guard(tr, "ScalarmultBaseNiels", func() { ge25519.ScalarmultBaseNiels(&P, &ge25519.NielsBaseMultiples, &sc) }) {
			continue
		}
		var out [32]byte
		ge25519.Pack(out[:], &P)
		k := new(big.Int).Mod(s, refmodel.L)
		exp := refmodel.BaseMul(k).Encode()
		emit("basemul", map[string]interface{}{"scalar": hx.Ints(refmodel.LE(s, 32)), "out": hx.Ints(out[:]), "expected": hx.Ints(exp[:]), "k": hx.Ints(refmodel.LE(k, 32))})
	}
	// double-base multiplication [s1]P + [s2]B
	type pk struct {
		k *big.Int
		t int
	}
	var pts []pk
	pts = append(pts, pk{big.NewInt(1), 0}, pk{new(big.Int).Sub(refmodel.L, big.NewInt(1)), 0}, pk{big.NewInt(0), 0}, pk{big.NewInt(0), 4}, pk{big.NewInt(0), 1}, pk{big.NewInt(0), 7})
	for t := 0; t < 8; t++ {
		pts = append(pts, pk{r.Scalar(), t})
	}
	svals := []*big.Int{big.NewInt(0), big.NewInt(1), big.NewInt(2), new(big.Int).Sub(refmodel.L, big.NewInt(1)), new(big.Int).Sub(two(252), big.NewInt(1)), two(252)}
	// scalars of every magnitude: 2^k - 1, 2^k, 2^k + 1 around the limb boundaries of both layouts and the window sizes
	// (runs of ones make the signed recoding carry one bit further than the scalar's length)
	var mags []*big.Int
	for _, k := range []uint{5, 7, 30, 56, 60, 112, 120, 150, 168, 180, 210, 223, 224, 225, 239, 240, 241, 250, 251} {
		mags = append(mags, new(big.Int).Sub(two(k), big.NewInt(1)), two(k), new(big.Int).Add(two(k), big.NewInt(1)),
			new(big.Int).Rsh(refmodel.FromLE(r.Bytes(32)), 256-k))
	}
	reps := 1
	if thorough {
		reps = 12
	}
	for rep := 0; rep < reps; rep++ {
		for _, p := range pts {
			enc := refmodel.FromKT(p.k, p.t).Encode()
			var P ge25519.Ge25519
			if !ge25519.UnpackVartime(&P, enc[:]) {
				panic("unpack")
			}
			var cands [][2]*big.Int
			for _, a := range svals {
				for _, b := range svals {
					if rep == 0 || r.Intn(6) == 0 {
						cands = append(cands, [2]*big.Int{a, b})
					}
				}
			}
			for i := 0; i < 4; i++ {
				cands = append(cands, [2]*big.Int{r.Scalar(), r.Scalar()}, [2]*big.Int{r.Scalar(), svals[r.Intn(len(svals))]})
			}
			for i := 0; i < 12; i++ { // both scalars short (the scan may start below the top limb)
				a, b := mags[r.Intn(len(mags))], mags[r.Intn(len(mags))]
				cands = append(cands, [2]*big.Int{a, b})
				if i%3 == 0 {
					cands = append(cands, [2]*big.Int{a, big.NewInt(int64(r.Intn(3)))}, [2]*big.Int{big.NewInt(int64(r.Intn(3))), b})
				}
			}
			for _, c := range cands {
				var s1, s2 modm.Bignum256
				modm.ExpandRaw(&s1, refmodel.LE(c[0], 32))
				modm.ExpandRaw(&s2, refmodel.LE(c[1], 32))
				var Rp, Re ge25519.Ge25519
				if guard(tr, "DoubleScalarmultVartime", func() { ge25519.DoubleScalarmultVartime(&Rp, &P, &s1, &s2) }) {
					continue
				}
				ge25519.ProjectiveToExtended(&Re, &Rp)
				var out [32]byte
				ge25519.Pack(out[:], &Re)
				resk := new(big.Int).Mul(c[0], p.k)
				resk.Add(resk, c[1]).Mod(resk, refmodel.L)
				rest := (int(new(big.Int).Mod(c[0], big.NewInt(8)).Int64()) * p.t) % 8
				exp := refmodel.FromKT(resk, rest).Encode()
				emit("doublebase", map[string]interface{}{"s1": hx.Ints(refmodel.LE(c[0], 32)), "s2": hx.Ints(refmodel.LE(c[1], 32)),
					"pk": hx.Ints(refmodel.LE(p.k, 32)), "pt": p.t, "resk": hx.Ints(refmodel.LE(resk, 32)), "rest": rest, "matches": out == exp})
			}
		}
	}
	formulaEvents(tr, r, thorough)
}

// formulaEvents: the point formulas with their coordinates.  Operands are extended points with non-trivial Z (results of
// earlier additions), of every kind: prime-order, mixed-order, small-order, neutral, P = Q, P = -Q.  The coordinates of the
// operands and of the result are recorded as canonical residues; TraceNum predicts them from the transcribed formulas
// (GroupFormulasBig) and checks that the result is the right point.
func formulaEvents(tr *hx.Trace, r *hx.Rng, thorough bool) {
	cfg := *fCfg
	res := func(x *fe) []int {
		var b [32]byte
		curve25519.Contract(b[:], x)
		return hx.Ints(b[:])
	}
	pt := func(p *ge25519.Ge25519) [][]int { return [][]int{res(p.X()), res(p.Y()), res(p.Z()), res(p.T())} }
	nl := func(q *ge25519.VerifNiels) [][]int { return [][]int{res(&q.YsubX), res(&q.XaddY), res(&q.T2d)} }
	pn := func(q *ge25519.VerifPniels) [][]int {
		return [][]int{res(&q.YsubX), res(&q.XaddY), res(&q.Z), res(&q.T2d)}
	}
	emit := func(f string, p, q, out [][]int, sign int) {
		if q == nil {
			q = [][]int{}
		}
		tr.Emit(map[string]interface{}{"op": "formula", "f": f, "p": p, "q": q, "out": out, "sign": sign, "cfg": cfg})
	}
	unpack := func(k *big.Int, t int) *ge25519.Ge25519 {
		enc := refmodel.FromKT(k, t).Encode()
		var P ge25519.Ge25519
		if !ge25519.UnpackVartime(&P, enc[:]) {
			panic("unpack")
		}
		return &P
	}
	type kt struct {
		k *big.Int
		t int
	}
	var base []kt
	base = append(base, kt{big.NewInt(0), 0}, kt{big.NewInt(0), 4}, kt{big.NewInt(0), 2}, kt{big.NewInt(0), 1}, kt{big.NewInt(1), 0}, kt{new(big.Int).Sub(refmodel.L, big.NewInt(1)), 0})
	n := 10
	if thorough {
		n = 120
	}
	for i := 0; i < n; i++ {
		base = append(base, kt{r.Scalar(), r.Intn(8)})
	}
	for i, a := range base {
		for j := 0; j < 3; j++ {
			b := base[r.Intn(len(base))]
			switch j {
			case 1:
				b = a // P = Q
			case 2:
				b = kt{new(big.Int).Mod(new(big.Int).Neg(a.k), refmodel.L), (8 - a.t) % 8} // Q = -P
			}
			// operands with non-trivial Z: P = (A + W) - W, Q = (B + W) - W for a blinding point W
			var P, Q ge25519.Ge25519
			if i%4 == 0 {
				P, Q = *unpack(a.k, a.t), *unpack(b.k, b.t) // Z = 1
			} else {
				w := unpack(r.Scalar(), r.Intn(8))
				var nw ge25519.Ge25519
				curve25519.Neg(nw.X(), w.X())
				curve25519.Copy(nw.Y(), w.Y())
				curve25519.Copy(nw.Z(), w.Z())
				curve25519.Neg(nw.T(), w.T())
				ge25519.Add(&P, unpack(a.k, a.t), w)
				ge25519.Add(&P, &P, &nw)
				ge25519.Add(&Q, unpack(b.k, b.t), w)
				ge25519.Add(&Q, &Q, &nw)
			}
			var R ge25519.Ge25519
			if !guard(tr, "Add", func() { ge25519.Add(&R, &P, &Q) }) {
				emit("add", pt(&P), pt(&Q), pt(&R), 0)
			}
			if !guard(tr, "Double", func() { ge25519.Double(&R, &P) }) {
				emit("double", pt(&P), nil, pt(&R), 0)
			}
			if !guard(tr, "doublePartial", func() { ge25519.VerifDoublePartial(&R, &P) }) {
				emit("doublepartial", pt(&P), nil, pt(&R)[:3], 0)
			}
			if !guard(tr, "CofactorMultiply", func() { ge25519.CofactorMultiply(&R, &P) }) {
				emit("cofmul", pt(&P), nil, pt(&R), 0)
			}
			if !guard(tr, "ProjectiveToExtended", func() { ge25519.ProjectiveToExtended(&R, &P) }) {
				emit("proj2ext", pt(&P)[:3], nil, pt(&R), 0)
			}
			var qp, op ge25519.VerifPniels
			if guard(tr, "fullToPniels", func() { ge25519.VerifFullToPniels(&qp, &Q) }) {
				continue
			}
			emit("fulltopniels", pt(&Q), nil, pn(&qp), 0)
			if !guard(tr, "pnielsAdd", func() { ge25519.VerifPnielsAdd(&op, &P, &qp) }) {
				emit("pnielsadd", pt(&P), pn(&qp), pn(&op), 0)
			}
			if !guard(tr, "geSub", func() { ge25519.VerifGeSubFull(&R, &P, &qp) }) {
				emit("gesub", pt(&P), pn(&qp), pt(&R), 0)
			}
			qn := ge25519.VerifNielsSlidingMultiple(r.Intn(32))
			for sign := 0; sign < 2; sign++ {
				sb := uint8(sign)
				if !guard(tr, "pnielsAddP1P1Vartime", func() { ge25519.VerifMixedAddFull(&R, &P, nil, &qp, sb) }) {
					emit("mixedpniels", pt(&P), pn(&qp), pt(&R), sign)
				}
				if !guard(tr, "nielsAdd2P1p1Vartime", func() { ge25519.VerifMixedAddFull(&R, &P, &qn, nil, sb) }) {
					emit("mixedniels", pt(&P), nl(&qn), pt(&R), sign)
				}
			}
			R = P
			if !guard(tr, "nielsAdd2", func() { ge25519.VerifNielsAdd2(&R, &qn) }) {
				emit("nielsadd2", pt(&P), nl(&qn), pt(&R), 0)
			}
		}
	}
}
