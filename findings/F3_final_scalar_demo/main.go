// Demonstration for finding F3 (C17): run from /verif/harness as
//   mkdir -p cmd/dbg && cp ../findings/F3_final_scalar_demo/main.go cmd/dbg/ && go run -tags verif ./cmd/dbg
// prints false (wrong sum) whenever the remaining scalar is > 1 on the tree before the fix.
package main

import (
	"fmt"
	"math/big"

	"github.com/oasisprotocol/ed25519"
	"github.com/oasisprotocol/ed25519/internal/ge25519"
	"github.com/oasisprotocol/ed25519/internal/modm"
	"github.com/oasisprotocol/ed25519/verifharness/hx"
	"github.com/oasisprotocol/ed25519/verifharness/refmodel"
)

func main() {
	r := hx.NewRng(5)
	for trial := 0; trial < 20; trial++ {
		count := 5
		s1 := r.Scalar()
		z := refmodel.FromLE(r.Bytes(16))
		svals := []*big.Int{r.Scalar(), s1, s1, z, z}
		if trial%2 == 1 {
			svals = []*big.Int{r.Scalar(), s1, r.Scalar(), z, z}
		}
		if trial%4 == 2 {
			svals = []*big.Int{r.Scalar(), s1, s1, z, refmodel.FromLE(r.Bytes(16))}
		}
		pts := make([]ge25519.Ge25519, count)
		scs := make([]modm.Bignum256, count)
		sum := refmodel.Identity()
		for i := 0; i < count; i++ {
			k := r.Scalar()
			p := refmodel.FromKT(k, 0)
			enc := p.Encode()
			ge25519.UnpackVartime(&pts[i], enc[:])
			modm.ExpandRaw(&scs[i], refmodel.LE(svals[i], 32))
			sum = sum.Add(p.Mul(svals[i]))
		}
		var heap ed25519.VerifBatchHeap
		var res ge25519.Ge25519
		n := 0
		var fin *big.Int
		ext := false
		ed25519.VerifHeapHook = func(h *ed25519.VerifBatchHeap, phase, max1, max2, limbSize int, extended bool) {
			n++
			if phase == 1 {
				b := make([]byte, 32)
				modm.Contract(b, h.VerifScalar(max1))
				fin = refmodel.FromLE(b)
				ext = extended
			}
		}
		ed25519.VerifMultiScalarmult(&res, &heap, pts, scs, count)
		var resb [32]byte
		ge25519.Pack(resb[:], &res)
		fmt.Println(trial%4, n, resb == sum.Encode(), fin, ext)
	}
}
