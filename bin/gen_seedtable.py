#!/usr/bin/env python3
"""Rewrites the table between the SEEDTABLE markers of DESIGN.md from seeded/*/meta.json."""
import glob, json, os, re
V = os.path.dirname(os.path.dirname(os.path.abspath(__file__)))
rows = []
for f in sorted(glob.glob(os.path.join(V, "seeded", "*", "meta.json"))):
    m = json.load(open(f))
    runs = m.get("ran", [])
    det = [r for r in runs if r.get("detected")]
    last = runs[-1]["result"] if runs else "not run"
    mm = re.search(r"(C\d+) rc=(\d) violations=(\d+)", last)
    res = ("caught by %s quick (%s violations)" % (mm.group(1), mm.group(3)) if mm and mm.group(2) == "1" else
           ("MISSED by %s quick" % mm.group(1) if mm and mm.group(2) == "0" else last))
    summ = (m.get("summary") or "").replace("|", "/").replace("\n", " ")
    rows.append("| %s | %s | %s | %s |" % (m["id"], summ[:230] + ("..." if len(summ) > 230 else ""), (m.get("needs_to_manifest") or "").replace("|", "/").replace("\n", " ")[:200], res))
table = "| id | change | needs | result |\n|---|---|---|---|\n" + "\n".join(rows)
p = os.path.join(V, "DESIGN.md")
s = open(p).read()
s = re.sub(r"<!-- SEEDTABLE -->.*<!-- /SEEDTABLE -->", "<!-- SEEDTABLE -->\n" + table + "\n<!-- /SEEDTABLE -->", s, flags=re.S)
open(p, "w").write(s)
print(len(rows), "rows")
