"""Per-property check definitions (see DESIGN.md section 4)."""
import os, json
import vlib
from vlib import (model_check, gen_cases, build_driver, run_driver, validate_trace, report_mismatches, finish, Infra)

CHECKS = {}


def check(pid):
    def deco(f):
        CHECKS[pid] = f
        return f
    return deco


ASSUME_COMMON = [
    "SHA-512 (crypto/sha512 of the Go toolchain) is trusted on both sides; the harness hashes the bytes exactly as supplied",
    "the projection bytes <-> ([k]B + [t]T8) is computed by harness/refmodel (math/big, independent of the library); "
    "events whose discrete log is unknown carry concrete attributes (decodes / small order / equation) computed by refmodel and are marked known=false",
    "TLC (exact BigNat arithmetic in pure TLA+) is the oracle; scaled-constant model checking (R1) covers the design, trace validation (R3) the observed executions only",
]


# ---------------------------------------------------------------- verify family

def verify_class(ev):
    if ev.get("op") != "verify":
        return ev.get("op")
    return "%s|zip=%s|%s|A=%s|R=%s|S=%s|len=%s" % (ev["api"], ev["zip"], ev["variant"], ev["A"]["kind"], ev["R"]["kind"], ev["srule"], ev["siglen"])


def verify_family(ctx, mc_cfgs):
    for cfg in mc_cfgs:
        model_check(ctx, "MCVerify.tla", cfg)
    # negative control of the model: the pinned tree's fast-reject mask (244) must be refuted by TLC
    ok, _ = model_check(ctx, "MCVerify.tla", "MCVerify_neg244.cfg", expect_ok=False)
    if ok:
        raise Infra("model control failed: MCVerify accepts fast-reject mask 244")
    cases = gen_cases(ctx, "VerifyCases", "verify_cases.ndjson")
    drv = build_driver(ctx)
    trace = os.path.join(ctx.work, "verify.ndjson")
    out = run_driver(ctx, drv, "verify", trace, cases=cases)
    ctx.log("driver:", out.strip())
    mism = validate_trace(ctx, "TraceVerify.tla", "TraceVerify.cfg", trace, classify=verify_class)
    # notes emitted by the driver (honest neighbours in a batch rejected, summary flag wrong)
    for ln in open(trace):
        ev = json.loads(ln)
        if ev.get("op") == "note":
            mism.append((ev, ev["what"]))
    report_mismatches(ctx, mism)


VERIFY_RULE = ("abstract cases enumerated by TLC from spec/VerifyCases.tla (point kinds x point kinds x S rules x variants x lengths), "
               "each instantiated with seeded random scalars/messages/contexts and replayed through Verify / VerifyWithOptions (default and ZIP-215) "
               "/ VerifyBatch on the real library; a case class is (api, mode, variant, A kind, R kind, S rule, length); distinct_nontrivial counts distinct classes observed")


@check("C01")
def c01(ctx):
    verify_family(ctx, ["MCVerify_quick.cfg"] if not ctx.thorough else ["MCVerify_quick.cfg", "MCVerify_thorough.cfg"])
    finish(ctx, VERIFY_RULE, ASSUME_COMMON)


@check("C04")
def c04(ctx):
    verify_family(ctx, ["MCVerify_quick.cfg"] if not ctx.thorough else ["MCVerify_quick.cfg", "MCVerify_scalars.cfg"])
    finish(ctx, VERIFY_RULE + "; plus direct calls of the unexported scMinimal on a boundary-dense set", ASSUME_COMMON)


@check("C05")
def c05(ctx):
    verify_family(ctx, ["MCVerify_quick.cfg"] if not ctx.thorough else ["MCVerify_quick.cfg", "MCVerify_thorough.cfg"])
    finish(ctx, VERIFY_RULE, ASSUME_COMMON)


@check("C09")
def c09(ctx):
    verify_family(ctx, ["MCVerify_quick.cfg"])
    finish(ctx, VERIFY_RULE + "; plus direct calls of isSmallOrderVartime", ASSUME_COMMON)
