"""Per-property check definitions (see DESIGN.md section 4)."""
import os, json
import vlib
from vlib import (tlaps, model_check, gen_cases, build_driver, run_driver, validate_trace, report_mismatches, finish, Infra)

CHECKS = {}


def check(pid):
    def deco(f):
        CHECKS[pid] = f
        return f
    return deco


ASSUME_COMMON = [
    "SHA-512 (crypto/sha512 of the Go toolchain) is trusted on both sides; the harness hashes the bytes exactly as supplied",
    "the projection bytes <-> ([k]B + [t]T8) is computed by harness/refmodel (math/big, independent of the library); "
    "events whose discrete log is unknown carry concrete attributes (decodes / small order / equation) computed by refmodel and are marked known=false",
    "TLC (exact BigNat arithmetic in pure TLA+) is the oracle; scaled-constant model checking (R1) covers the design, trace validation (R3) the observed executions only",
]


# ---------------------------------------------------------------- verify family

def verify_class(ev):
    if ev.get("op") != "verify":
        return ev.get("op")
    return "%s|zip=%s|%s|A=%s|R=%s|S=%s|len=%s" % (ev["api"], ev["zip"], ev["variant"], ev["A"]["kind"], ev["R"]["kind"], ev["srule"], ev["siglen"])


def batch_extra(ctx):
    """the batch driver restricted to the property's kinds of entries (selection by -prop in cmd/driver/batch.go)"""
    import glob
    cases = gen_cases(ctx, "BatchCases", "batch_cases.ndjson")
    trace = os.path.join(ctx.work, "batch.ndjson")
    out = run_driver(ctx, build_driver(ctx), "batch", trace, cases=cases, extra=["-shards", "6"])
    ctx.log("batch driver:", out.strip())
    mism = validate_trace(ctx, "TraceBatch.tla", "TraceBatch.cfg", trace, presharded=sorted(glob.glob(trace + ".*")), classify=batch_class)
    report_mismatches(ctx, mism)


def verify_family(ctx, mc_cfgs, configs=("default",)):
    for cfg in mc_cfgs:
        model_check(ctx, "MCVerify.tla", cfg)
    # negative control of the model: the pinned tree's fast-reject mask (244) must be refuted by TLC
    ok, _ = model_check(ctx, "MCVerify.tla", "MCVerify_neg244.cfg", expect_ok=False)
    if ok:
        raise Infra("model control failed: MCVerify accepts fast-reject mask 244")
    cases = gen_cases(ctx, "VerifyCases", "verify_cases.ndjson")
    mism = []
    for cfgname in configs:
        drv = build_driver(ctx, cfgname)
        trace = os.path.join(ctx.work, "verify_%s.ndjson" % cfgname)
        out = run_driver(ctx, drv, "verify", trace, cases=cases, config=cfgname)
        ctx.log("driver[%s]:" % cfgname, out.strip())
        mism += validate_trace(ctx, "TraceVerify.tla", "TraceVerify.cfg", trace, classify=verify_class)
    report_mismatches(ctx, mism)


VERIFY_RULE = ("abstract cases enumerated by TLC from spec/VerifyCases.tla (point kinds x point kinds x S rules x variants x lengths), "
               "each instantiated with seeded random scalars/messages/contexts and replayed through Verify / VerifyWithOptions (default and ZIP-215) "
               "/ VerifyBatch on the real library; a case class is (api, mode, variant, A kind, R kind, S rule, length); distinct_nontrivial counts distinct classes observed")


@check("C01")
def c01(ctx):
    # CofactorEqual = "equal up to torsion" for every pair of points of a small curve of edwards25519's shape, in every scaling
    model_check(ctx, "MCGroupLaw.tla", "MCGroupLaw_formulas_t.cfg" if ctx.thorough else "MCGroupLaw_formulas.cfg")
    verify_family(ctx, ["MCVerify_quick.cfg"] if not ctx.thorough else ["MCVerify_quick.cfg", "MCVerify_thorough.cfg"])
    finish(ctx, VERIFY_RULE, ASSUME_COMMON)


@check("C04")
def c04(ctx):
    verify_family(ctx, ["MCVerify_quick.cfg"] if not ctx.thorough else ["MCVerify_quick.cfg", "MCVerify_scalars.cfg"],
                  configs=list(vlib.CONFIGS) if ctx.thorough else ("default", "force32bit"))   # the scalar recodings differ per limb layout
    batch_extra(ctx)      # S >= L entries at every position of every chunking (marked, no forced fallback)
    finish(ctx, VERIFY_RULE + "; plus direct calls of the unexported scMinimal on a boundary-dense set", ASSUME_COMMON)


@check("C05")
def c05(ctx):
    tlaps(ctx, "VerifyPredProofs.tla")      # unbounded: Accept(default) => Accept(zip); the modes differ only on small-order A or R
    verify_family(ctx, ["MCVerify_quick.cfg"] if not ctx.thorough else ["MCVerify_quick.cfg", "MCVerify_thorough.cfg"],
                  configs=list(vlib.CONFIGS) if ctx.thorough else ("default", "force32bit"))
    batch_extra(ctx)      # ZIP-215 batches with small-order entries, alone and next to other failures (fallback path)
    finish(ctx, VERIFY_RULE, ASSUME_COMMON)


@check("C09")
def c09(ctx):
    # IsNeutral([8]P) <=> the order of P divides 8, for every point of a small curve of edwards25519's shape, in every scaling
    model_check(ctx, "MCGroupLaw.tla", "MCGroupLaw_formulas_t.cfg" if ctx.thorough else "MCGroupLaw_formulas.cfg")
    verify_family(ctx, ["MCVerify_quick.cfg"])
    batch_extra(ctx)      # small-order / mixed-order / undecodable key and R at every position of every chunking
    curve_family(ctx)     # mul8 events: [8]P for decodable strings of unknown discrete log, audited projection
    finish(ctx, VERIFY_RULE + "; plus direct calls of isSmallOrderVartime", ASSUME_COMMON)


# ---------------------------------------------------------------- batch family

def batch_class(ev):
    if ev.get("op") != "batch":
        return ev.get("op")
    bad = sorted(set(k for k in ev.get("kinds", []) if k != "honest"))
    n = ev["n"]
    size = "n=%d" % n if n <= 5 else ("n~%d" % (64 * (n // 64)) + ("+%d" % (n % 64) if n % 64 else ""))
    return "%s|zip=%s|%s|ent=%s|pre=%s|bad=%s" % (size, ev["zip"], ev["variant"], ev["entropy"], ev["pre"], ",".join(bad))


def batch_family(ctx, mc_cfg):
    model_check(ctx, "MCBatch.tla", mc_cfg, timeout=3000)
    cases = gen_cases(ctx, "BatchCases", "batch_cases.ndjson")
    drv = build_driver(ctx)
    trace = os.path.join(ctx.work, "batch.ndjson")
    out = run_driver(ctx, drv, "batch", trace, cases=cases, extra=["-shards", "6"])
    ctx.log("driver:", out.strip())
    import glob
    shards = sorted(glob.glob(trace + ".*"))
    mism = validate_trace(ctx, "TraceBatch.tla", "TraceBatch.cfg", trace, presharded=shards, classify=batch_class)
    report_mismatches(ctx, mism)


BATCH_RULE = ("abstract batch cases enumerated by TLC from spec/BatchCases.tla (sizes 0..5, 63..69, 127..131, 200 x chunk-structure positions x 20 kinds of badness "
              "x variants x modes, pairs of bad entries, all-valid batches with random/zero/all-ones entropy, failing/short entropy, option errors) instantiated with seeded honest "
              "entries and mutations; each VerifyBatch call is recorded with the hook events of the real code and replayed by TLC through Batch.tla with the real constants "
              "(4, 64): hook sequence, result vector, summary flag, per-entry equality with the spec's Single and with the real single verifier; the chunk equation is predicted "
              "exactly from the logged 128-bit randomisers; a class is (size class, mode, variant, entropy, pre-condition, kinds of bad entries)")


@check("C06")
def c06(ctx):
    batch_family(ctx, "MCBatch_quick.cfg" if not ctx.thorough else "MCBatch_thorough.cfg")
    finish(ctx, BATCH_RULE, ASSUME_COMMON + ["a batch entry whose discrete log is unknown (bit-flipped key/R) is assumed not to cancel in the randomised sum (probability 2^-128)"])


def heap_class(ev):
    steps = len(ev.get("hevs", []))
    return "%s|%s|count=%s|steps~%d" % (ev.get("via"), ev.get("flavour"), ev.get("count"), 1 << max(0, steps.bit_length() - 1))


@check("C17")
def c17(ctx):
    import glob
    model_check(ctx, "MCBosCoster.tla", "MCBosCoster_quick.cfg" if not ctx.thorough else "MCBosCoster_thorough.cfg", timeout=3000)
    if ctx.thorough:
        model_check(ctx, "MCBosCoster.tla", "MCBosCoster_live.cfg")      # liveness: every run terminates (weak fairness)
    model_check(ctx, "MCBatch.tla", "MCBatch_quick.cfg")
    drv = build_driver(ctx)
    # (a) Bos-Coster steps of the real code, through VerifyBatch and by direct calls
    htrace = os.path.join(ctx.work, "heap.ndjson")
    out = run_driver(ctx, drv, "heap", htrace, extra=["-shards", "6"])
    ctx.log("heap driver:", out.strip())
    mism = validate_trace(ctx, "TraceBosCoster.tla", "TraceBosCoster.cfg", htrace, presharded=sorted(glob.glob(htrace + ".*")),
                          classify=heap_class, timeout=6000)
    report_mismatches(ctx, mism)
    # (b) all-valid batches of every size: equation TRUE in every chunk, no fallback event
    cases = gen_cases(ctx, "BatchCases", "batch_cases.ndjson")
    btrace = os.path.join(ctx.work, "batch.ndjson")
    out = run_driver(ctx, drv, "batch", btrace, cases=cases, extra=["-shards", "6"])
    ctx.log("batch driver:", out.strip())
    mism = validate_trace(ctx, "TraceBatch.tla", "TraceBatch.cfg", btrace, presharded=sorted(glob.glob(btrace + ".*")), classify=batch_class)
    report_mismatches(ctx, mism)
    finish(ctx, "Bos-Coster: every iteration of multiScalarmultVartime recorded by the heap hook (through VerifyBatch for chunk sizes 4..69 incl. multi-chunk calls, and by direct calls "
           "with scalar/point flavours: generic, mixed-order, torsion-only, repeated, zero randomisers, all zero, ones, equal scalars, top slice, common factors, maximal randomisers) "
           "replayed by TLC through BosCoster.tla on the real scalars; result compared with the exact sum. Fallback counter: all-valid batches (BatchCases.AllValid: sizes 0..70, 126..132, 191..257; "
           "random / all-zero / all-ones entropy) validated through Batch.tla: Equation(1) and no Fallback event in every chunk. " + BATCH_RULE,
           ASSUME_COMMON + ["inputs the spec flags design-inexact (pending non-zero 128-bit scalars at loop exit, remainder above limb128bits) are excluded from the exactness claim as in the property text"])


# ---------------------------------------------------------------- sign family

def sign_class(ev):
    if ev.get("op") == "sign":
        return "sign|%s|ctx=%d|msg=%d|%s" % (ev["variant"], len(ev["ctx"]), ev["msglen"], "special-seed" if len(set(ev["seed"])) == 1 else "seed")
    if ev.get("op") == "opts":
        return "opts|%s|%s|hash=%s|ctx=%s|msg=%s" % (ev["api"], ev["style"], ev["hash"], ev["ctxlen"], ev["msglen"])
    if ev.get("op") == "verify":
        return "%s|zip=%s|%s|%s|ctx=%s|n=%s|pos=%s" % (ev["api"], ev["zip"], ev["variant"], ev.get("srule"), ev.get("ctxlen"), ev.get("batch_n"), ev.get("batch_pos"))
    return ev.get("op")


def sign_family(ctx, configs=("default",)):
    mism = []
    for cfgname in configs:
        drv = build_driver(ctx, cfgname)
        trace = os.path.join(ctx.work, "sign_%s.ndjson" % cfgname)
        vtrace = os.path.join(ctx.work, "sign_verify_%s.ndjson" % cfgname)
        out = run_driver(ctx, drv, "sign", trace, extra=["-aux", vtrace], config=cfgname)
        ctx.log("driver[%s]:" % cfgname, out.strip())
        if os.path.getsize(trace) > 0:
            mism += validate_trace(ctx, "TraceSign.tla", "TraceSign.cfg", trace, classify=sign_class)
        if os.path.getsize(vtrace) > 0:
            mism += validate_trace(ctx, "TraceVerify.tla", "TraceVerify.cfg", vtrace, classify=sign_class)
    report_mismatches(ctx, mism)


SIGN_ASSUME = ASSUME_COMMON + ["the two base-point multiples of a sign event ([a]B, [r]B) are projected by refmodel (math/big) and cross-checked against crypto/ed25519 of the toolchain; "
                               "the hash inputs (dom2 || prefix || M, dom2 || R || A || M) are composed by the harness from the RFC text, the dom2 bytes are re-derived by TLC"]


@check("C02")
def c02(ctx):
    model_check(ctx, "MCOptions.tla", "MCOptions.cfg")
    sign_family(ctx, list(vlib.CONFIGS) if ctx.thorough else ("default", "force32bit"))
    curve_family(ctx)      # audit-iso: the library's public keys and R values re-derived bit by bit in TLA+ ([a]B, [r]B)
    finish(ctx, "seeds (all-zero, all-ones, random) x variant/context pairs (pure; ctx 1,2,16,254,255; ph 0,1,16,255) x message lengths (0,1,111,112,127,128,129,300; thorough: 4096, 1 MiB) "
           "signed through every entry point twice with a counting entropy reader; each event validated by TLC against SignSpec.tla (clamp, reductions mod L, S, dom2 bytes, determinism, "
           "entropy untouched, equality with crypto/ed25519); class = (variant, context length, message length, seed kind)", SIGN_ASSUME)


@check("C03")
def c03(ctx):
    model_check(ctx, "MCVerify.tla", "MCVerify_quick.cfg")   # includes HonestAccepted: S = r + h a is accepted in both modes
    sign_family(ctx, list(vlib.CONFIGS) if ctx.thorough else ("default", "force32bit"))
    batch_extra(ctx)     # all-valid batches of every size (library-made signatures, same-signer runs across chunk boundaries)
    finish(ctx, "every signature produced by the sign driver is verified by Verify, VerifyWithOptions (default and ZIP-215) and as a member of batches of size 1,3,4,5,64,65,129 "
           "(every member position), each verdict validated by TLC through the Verify pipeline with the signer's coordinates (a, r); sign events additionally require S < L, a != 0, r != 0", SIGN_ASSUME)


@check("C07")
def c07(ctx):
    model_check(ctx, "MCOptions.tla", "MCOptions.cfg")
    # the hashed transcript determines (variant, context, R, A, message): a parser is a left inverse on every scaled tuple;
    # it rests on "R is never the dom2 prefix", which TLC checks for the real 32-byte constant (non-residue certificate, ASSUME)
    model_check(ctx, "MCDom2.tla", "MCDom2.cfg")
    ok, _ = model_check(ctx, "MCDom2.tla", "MCDom2_neg.cfg", expect_ok=False)
    if ok:
        raise Infra("model control failed: MCDom2 finds a left inverse although R may equal the prefix")
    sign_family(ctx)
    batch_extra(ctx)     # wrong pre-hash lengths at every batch position (with signatures valid over the wrong-length string), option errors
    finish(ctx, "14 (variant, context) pairs differing in one bit / length / trailing zero / 254 vs 255 / variant: sign under each, verify under every pair (single default, ZIP-215, batch member), "
           "expected verdict computed by TLC from the verifier-side hash; option/length matrix (style x hash selector x context length {0,1,2,254,255,256,257,1000} x message length {0,63,64,65}) "
           "on Sign / VerifyWithOptions / VerifyBatch: refusal surface and the variant actually used (which stdlib-made candidate signature matches / is accepted)", SIGN_ASSUME)


# ---------------------------------------------------------------- API contract / key objects

def api_class(ev):
    op = ev.get("op")
    if op == "api":
        return "api|%s|seed=%s priv=%s pub=%s sig=%s sc=%s pt=%s|%s/%s/ctx%s/msg%s|%s" % (
            ev["fn"], ev["seedLen"], ev["privLen"], ev["pubLen"], ev["sigLen"], ev["scalarLen"], ev["pointLen"],
            ev["style"], ev["hash"], ev["ctxlen"], ev["msglen"], ev["alias"]) if ev["fn"] != "VerifyBatch" else \
            "api|VerifyBatch|n=%s|ctx=%s|mismatch=%s|entropyFail=%s" % (ev["n"], ev["ctxlen"], ev["countMismatch"], ev["entropyFail"])
    if op == "genkey":
        return "genkey|avail=%s|chunk=%s|failing=%s" % (ev["avail"], ev["chunk"], ev["failing"])
    if op == "equal":
        return "equal|" + ev["what"]
    return op


def api_family(ctx):
    cases = gen_cases(ctx, "ApiCases", "api_cases.ndjson")
    drv = build_driver(ctx)
    trace = os.path.join(ctx.work, "api.ndjson")
    out = run_driver(ctx, drv, "api", trace, cases=cases)
    ctx.log("driver:", out.strip())
    mism = validate_trace(ctx, "TraceApi.tla", "TraceApi.cfg", trace, classify=api_class)
    report_mismatches(ctx, mism)


@check("C13")
def c13(ctx):
    model_check(ctx, "MCOptions.tla", "MCOptions.cfg")
    api_family(ctx)
    # malformed batch entries at every position (shared with C06): hook trace + result through Batch.tla
    import glob
    bcases = gen_cases(ctx, "BatchCases", "batch_cases.ndjson")
    btrace = os.path.join(ctx.work, "batch.ndjson")
    out = run_driver(ctx, build_driver(ctx), "batch", btrace, cases=bcases, extra=["-shards", "6"])
    ctx.log("batch driver:", out.strip())
    mism = validate_trace(ctx, "TraceBatch.tla", "TraceBatch.cfg", btrace, presharded=sorted(glob.glob(btrace + ".*")), classify=batch_class)
    report_mismatches(ctx, mism)
    finish(ctx, "argument-shape matrix enumerated by TLC from spec/ApiCases.tla (lengths nil,0,1,31,32,33,63,64,65,96 for seeds, keys, signatures, X25519 arguments; option classes; "
           "aliasing patterns) replayed under recover with sentinel-filled spare capacity; outcome class (return / documented panic / error) and the frame condition (sha-256 of every "
           "backing array before = after) validated by TLC against Api.tla; random malformed VerifyBatch shapes (nil entries, unequal counts, long contexts, failing entropy); "
           "plus the malformed-entry cases of BatchCases through Batch.tla", ASSUME_COMMON)


@check("C14")
def c14(ctx):
    model_check(ctx, "MCOptions.tla", "MCOptions.cfg")
    api_family(ctx)
    finish(ctx, "GenerateKey on readers of every kind (exact, long, chunked, short, failing, nil): bytes consumed, error propagation, coherence with NewKeyFromSeed / crypto/ed25519; "
           "Public()/Seed() freshness by mutation; Equal truth table over every single-byte difference (two masks) of private and public keys, length differences and foreign types; "
           "validated by TLC against Api.tla (GenKeyExpected, EqualExpected)", ASSUME_COMMON)


# ---------------------------------------------------------------- curve family (decode/encode, conversions, X25519)

def curve_class(ev):
    op = ev.get("op")
    if op == "decode":
        y = int.from_bytes(bytes(ev["bytes"][:31] + [ev["bytes"][31] & 0x7f]), "little")
        p = 2 ** 255 - 19
        cls = "y>=p" if y >= p else ("y<24" if y < 24 else ("y>p-25" if y > p - 25 else "generic"))
        return "decode|%s|ok=%s|branch=%s|neg=%s|sign=%d" % (cls, ev["ok"], ev["branch"], ev["negative"], ev["bytes"][31] >> 7)
    if op == "pack":
        return "pack|variant=%s" % ev["variant"]
    if op == "x25519":
        return "x25519|%s|slen=%s|plen=%s|err=%s|%s" % (ev["point"], ev["scalarLen"], ev["pointLen"], ev["err"], ev.get("what", ""))
    if op == "edpub2x":
        return "edpub2x|ok=%s" % ev["ok"]
    return op


def curve_family(ctx):
    drv = build_driver(ctx)
    trace = os.path.join(ctx.work, "curve.ndjson")
    out = run_driver(ctx, drv, "curve", trace)
    ctx.log("driver:", out.strip())
    mism = validate_trace(ctx, "TraceCurve.tla", "TraceCurve.cfg", trace, classify=curve_class, timeout=6000)
    report_mismatches(ctx, mism)


CURVE_ASSUME = ASSUME_COMMON + ["square-root / non-residue / inverse witnesses are supplied by refmodel and CHECKED by TLC (sound whatever produced them); "
                                "X25519 results are compared with refmodel's RFC 7748 ladder, itself audited bit by bit in TLA+ (audit-ladder events) on a seeded sample; "
                                "the generic X25519 path is golang.org/x/crypto (outside the repository)"]


@check("C10")
def c10(ctx):
    model_check(ctx, "MCDecode.tla", "MCDecode.cfg")
    curve_family(ctx)
    finish(ctx, "decode inputs: the 19 y in [p, 2^255) x sign, y < 24 and y > p-25 x sign, the 14 torsion encodings, random strings (both root branches and non-squares), honest points; "
           "observed through UnpackVartime, UnpackNegativeVartime and EdPublicKeyToX25519; every decoded point re-encoded by Pack from four internal representations (Z=1, scaled, x+p/y+p, scaled+p); "
           "TLC checks the witness, the flag, the coordinates (curve equation, parity rule, Z=1, T=XY) and the canonical encoding in exact arithmetic; "
           "audit-iso events validate the harness projection [k]B+[t]T8 bit by bit in TLA+", CURVE_ASSUME)


@check("C11")
def c11(ctx):
    model_check(ctx, "MCOptions.tla", "MCOptions.cfg")
    # fast path = ladder, DH agreement and low-order outputs over small curves of edwards25519's shape, every point / u / scalar
    model_check(ctx, "MCMontgomery.tla", "MCMontgomery_t.cfg" if ctx.thorough else "MCMontgomery.cfg", timeout=7200)
    for neg, what in (("a24", "a ladder with (A+2)/4"), ("noswap", "a ladder without the final conditional swap")):
        ok, _ = model_check(ctx, "MCMontgomery.tla", "MCMontgomery_neg_%s.cfg" % neg, expect_ok=False)
        if ok:
            raise Infra("model control failed: MCMontgomery accepts " + what)
    curve_family(ctx)
    finish(ctx, "X25519 on the base-point slice (fast path), a copy of 9 (generic), ScalarBaseMult and ScalarMult for scalars covering every nibble value at every position with neighbours 0/7/8/f, "
           "all unclamped variants of the low 3 / high 2 bits, 0, all-ones, L-1, L, 4L, random; generic points (known-dlog curve points, arbitrary u incl. twist, u >= p, bit 255 set), the 7 low-order points, "
           "argument lengths 0,1,31,33,64; TLC checks result = RFC 7748 value, fast = generic, error iff bad length or all-zero result; audit-ladder events replay the full ladder in TLA+", CURVE_ASSUME)


@check("C12")
def c12(ctx):
    model_check(ctx, "MCDecode.tla", "MCDecode.cfg")
    curve_family(ctx)
    finish(ctx, "EdPublicKeyToX25519 on all C10 decode inputs (ok iff decodable by witness; out = canonical (1+y)/(1-y) by inverse witness, 0 for y=1); EdPrivateKeyToX25519 = clamp(SHA-512(seed)[:32]); "
           "commutation X25519(convPriv, Basepoint) = convPub(pub) for seeded seeds; all validated by TLC in exact arithmetic", CURVE_ASSUME)


# ---------------------------------------------------------------- numeric layers

def num_class(ev):
    op = ev.get("op")
    if op == "field":
        return "field|%s|%s%s" % (ev["layout"], ev["f"], "|aliased" if ev.get("aliased") else "")
    if op == "scalar":
        return "scalar|%s|%s|%s" % (ev["layout"], ev["f"], ev.get("w", ev.get("ls", "")))
    if op == "formula":
        return "formula|%s|%s" % (ev["f"], ev.get("sign", 0))
    if op == "group":
        return "group|%s|%s" % (ev["f"], "pos=%s,b=%s" % (ev["pos"], ev["b"]) if ev["f"] == "choose" else ev.get("pt", ev.get("i", "")))
    return op


NUM_CONFIGS_QUICK = ["default", "force32bit"]
NUM_CONFIGS_THOROUGH = ["default", "noasm", "force32bit", "noasm_appengine", "force32bit_appengine", "386"]


def num_family(ctx, configs):
    mism = []
    for cfgname in configs:
        drv = build_driver(ctx, cfgname)
        trace = os.path.join(ctx.work, "num_%s.ndjson" % cfgname)
        out = run_driver(ctx, drv, "num", trace, config=cfgname)
        ctx.log("driver[%s]:" % cfgname, out.strip())
        mism += validate_trace(ctx, "TraceNum.tla", "TraceNum.cfg", trace, classify=num_class)
        # field calls whose result limbs were compared, limb for limb, with the limb-level transcription (FieldLimbsBig); differences are NOTEs
        known = {"Add", "AddAfterBasic", "AddReduce", "Sub", "SubAfterBasic", "SubReduce", "Neg", "Mul", "Square", "SquareTimes"}
        n = sum(1 for ln in open(trace) if '"op":"field"' in ln.replace(" ", "") and json.loads(ln).get("f") in known)
        ctx.notes["limb_exact_events"] = ctx.notes.get("limb_exact_events", 0) + n
        # point-formula calls whose result coordinates were compared with the transcribed formulas (GroupFormulasBig); differences are NOTEs
        n = sum(1 for ln in open(trace) if '"op":"formula"' in ln.replace(" ", ""))
        ctx.notes["formula_coordinate_events"] = ctx.notes.get("formula_coordinate_events", 0) + n
        n = sum(1 for ln in open(trace) if '"f":"Barrett"' in ln.replace(" ", ""))
        ctx.notes["barrett_limb_events"] = ctx.notes.get("barrett_limb_events", 0) + n
    ctx.notes.setdefault("model_notes", 0)
    report_mismatches(ctx, mism)


NUM_ASSUME = ASSUME_COMMON + ["sampling oracle: the exact residue identity is checked by TLC for every recorded operation, on inputs built from limb-boundary byte patterns and the operand classes "
                              "the group-law code produces (R, A1 = Add(R,R), S1 = Sub(R,R), AB, SB); no claim is made for limb vectors outside those classes"]


@check("C18")
def c18(ctx):
    tlaps(ctx, "NumericProofs.tla")      # unbounded: a carry / borrow / recoding step conserves the represented value; the wrap-around law
    model_check(ctx, "FieldLimbs.tla", "FieldLimbs.cfg")          # carry discipline, exhaustive at 3 limbs x 3 bits
    ok, _ = model_check(ctx, "FieldLimbsNeg.tla", "FieldLimbsNeg.cfg", expect_ok=False)   # control: Neg with bias p (not 2p) underflows
    if ok:
        raise Infra("model control failed: FieldLimbs accepts a p-biased negation")
    # the 10x25.5 layout (alternating widths, in-place doubling of the odd limbs in Mul, partial carry in Sub) at 4 and 6 limbs
    for cfg in (["FieldLimbs32_4.cfg", "FieldLimbs32_6.cfg"] if ctx.thorough else ["FieldLimbs32_4q.cfg", "FieldLimbs32_6q.cfg"]):
        model_check(ctx, "FieldLimbs32.tla", cfg, timeout=7200)
    ok, _ = model_check(ctx, "FieldLimbs32.tla", "FieldLimbs32_6neg.cfg", expect_ok=False)   # control: r3 = r3*19 without the halving
    if ok:
        raise Infra("model control failed: FieldLimbs32 accepts Mul without the halving of the doubled odd limbs")
    # word-size headroom at the REAL limb sizes: interval analysis of every point formula over the 10x25.5 layout
    for mod, negs in (("FieldBounds32", (("sub_nocarry", "a Sub without its partial carry"), ("three_adds", "three additions in a row feeding Mul"))),
                      ("FieldBounds51", (("sub_nocarry", "two SubAfterBasic in a row feeding Mul"), ("three_adds", "a Mul operand of 2^57")))):
        model_check(ctx, mod + ".tla", mod + "_code.cfg")
        for neg, what in negs:
            ok, _ = model_check(ctx, mod + ".tla", "%s_%s.cfg" % (mod, neg), expect_ok=False)
            if ok:
                raise Infra("model control failed: %s accepts %s" % (mod, what))
    # the hand-scheduled squaring routines, term by term, at the real limb COUNT (5 and 10) and scaled widths, every reduced operand
    for cfg, ok_expected in (("FieldSquare_f51.cfg", True), ("FieldSquare_f32.cfg", True), ("FieldSquare_neg51.cfg", False), ("FieldSquare_neg32.cfg", False)):
        ok, _ = model_check(ctx, "FieldSquare.tla", cfg, expect_ok=ok_expected)
        if ok and not ok_expected:
            raise Infra("model control failed: FieldSquare accepts " + cfg)
    model_check(ctx, "MCDecode.tla", "MCDecode.cfg")
    num_family(ctx, NUM_CONFIGS_THOROUGH if ctx.thorough else NUM_CONFIGS_QUICK)
    finish(ctx, "field operations of both limb layouts (5x51 in the default build, 10x25.5 with force32bit) driven on reduced elements from limb-boundary byte patterns (each limb 0 / 1 / mask-19 / mask-1 / mask / random, "
           "encodings of 0,1,2,19,p-2,p-1,p,p+1,p+18,2^255-1) and on the unreduced classes the group law produces, incl. aliased in-place calls; TLC checks Val(out) = op(Val(in)) mod p, reduced limb widths, "
           "Contract canonical (< p), Expand ignores bit 255, SwapConditional limb for limb, Recip by inverse identity, (p-5)/8 power by identity and projection", NUM_ASSUME)


@check("C19")
def c19(ctx):
    tlaps(ctx, "NumericProofs.tla")      # unbounded: the signed radix-16 step (digit range, carries, value conservation), the borrow step
    model_check(ctx, "MCBarrett.tla", "MCBarrett.cfg" if not ctx.thorough else "MCBarrett_all.cfg")   # two conditional subtractions suffice
    # limb-level transcription (truncated q2 product, shift/mask cuts, borrow chains, Mul's q1/r1 split), every x below 2^(2 KB)
    model_check(ctx, "ModmLimbs.tla", "ModmLimbs_t.cfg" if ctx.thorough else "ModmLimbs_q.cfg", timeout=7200)
    for neg, what in (("ModmLimbs_neg1.cfg", "a single conditional subtraction"), ("ModmLimbs_neg2.cfg", "a q2 product without the carry of column NL-2")):
        ok, _ = model_check(ctx, "ModmLimbs.tla", neg, expect_ok=False)
        if ok:
            raise Infra("model control failed: ModmLimbs accepts " + what)
    model_check(ctx, "MCRecode.tla", "MCRecode.cfg")
    num_family(ctx, NUM_CONFIGS_THOROUGH if ctx.thorough else NUM_CONFIGS_QUICK)
    finish(ctx, "scalar layer of both layouts: Expand of 0..64-byte strings (kL+delta for 14 quotient sizes, 2^252/253/255/256/257/264/504/511/512 +-, qL and qL-1, random), ExpandRaw, Add/Mul on edge and random pairs of [0,L)^2, "
           "Contract, reduce, signed radix-16 recoding (nibble patterns 7/8/9/f with neighbours 0/7/8/f at every third position, boundary values, clamped scalars), sliding windows 5 and 7 (patterns, boundaries, random), "
           "the vartime helpers; TLC checks exact residues / digit sums / digit ranges in BigNat and digit-for-digit equality with Recode!SignedLoop; R1: recodings exact for all 16-bit scaled scalars; "
           "Barrett reduction abstractly (HAC 14.42) and at limb level (ModmLimbs: truncated product, cuts, borrow chains, Mul, Add) for every input at the scaled size", NUM_ASSUME)


@check("C16")
def c16(ctx):
    model_check(ctx, "MCRecode.tla", "MCRecode.cfg")
    # point formulas on every pair of points of a small curve of edwards25519's shape; both scalar multiplication algorithms end to end
    sfx = "_t" if ctx.thorough else ""
    for mode in ("formulas", "base", "double"):
        model_check(ctx, "MCGroupLaw.tla", "MCGroupLaw_%s%s.cfg" % (mode, sfx), timeout=7200)
    for neg, what in (("row0", "a table whose row 0 stores 2dxy"), ("dbl3", "three doublings between the odd and the even digits"),
                      ("ec2d", "add_p1p1 with d in the place of 2d"), ("stale", "an addition that reads the T of a partial point")):
        ok, _ = model_check(ctx, "MCGroupLaw.tla", "MCGroupLaw_neg_%s.cfg" % neg, expect_ok=False)
        if ok:
            raise Infra("model control failed: MCGroupLaw accepts " + what)
    num_family(ctx, NUM_CONFIGS_THOROUGH if ctx.thorough else ["default", "noasm", "force32bit"])
    curve_family(ctx)   # audit-iso events: the projection [k]B + [t]T8 is re-derived bit by bit in TLA+
    finish(ctx, "constant-time table selector on its complete domain (32 positions x 17 digits) on the assembly, reference and 32-bit backends: niels entry = (y-x, y+x, 2dxy) of [b 256^pos]B (row 0: 2xy) checked by TLC; "
           "fixed-base multiplication on 0,1,2,8,16,L-1,L,L+1,2^255-1,2^254,2^252-1, nibble-carry patterns, reduced and clamped random scalars; double-base multiplication for P in {B,-B,identity,order 2,order 8, [k]B+T_t for all t} "
           "x (s1,s2) in {0,1,2,L-1,2^252-1,2^252,random}^2: result coordinates k = s1 kP + s2, t = s1 tP computed by TLC", NUM_ASSUME)


# ---------------------------------------------------------------- C20: constant-time behaviour (valgrind-lackey traces)

CT_OPS = [  # (op of ctprobe, operation class, public shape)
    ("NewKeyFromSeed", "NewKeyFromSeed", "seed32"),
    ("GenerateKey", "GenerateKey", "reader32"),
    ("Sign", "Sign", "msg77"),
    ("SignerHash0", "PrivateKey.Sign/Hash(0)", "msg77"),
    ("SignCtx", "PrivateKey.Sign/ctx", "msg77,ctx13"),
    ("SignPh", "PrivateKey.Sign/ph", "digest64,ctx1"),
    ("X25519Base", "X25519(Basepoint)", "scalar32"),
    ("ScalarBaseMult", "ScalarBaseMult", "scalar32"),
    ("EdPrivateKeyToX25519", "EdPrivateKeyToX25519", "priv64"),
    ("EqualSame", "PrivateKey.Equal", "priv64,priv64"),
    ("EqualDiffFirst", "PrivateKey.Equal", "priv64,priv64"),
    ("EqualDiffMid", "PrivateKey.Equal", "priv64,priv64"),
    ("EqualDiffLast", "PrivateKey.Equal", "priv64,priv64"),
]


# code whose instruction / address trace is the observation: the library, the packages it applies to
# secret data (hashing, comparison, copying, zeroing) and the probe.  The Go memory manager and scheduler are not.
CT_CODE_PREFIXES = ("github.com/oasisprotocol/ed25519", "golang.org/x/crypto", "crypto/", "crypto.", "bytes.", "internal/bytealg", "io.", "hash",
                    "encoding/binary", "math/bits", "strconv.", "errors.", "main.", "runtime.memequal", "memeqbody", "runtime.memmove",
                    "runtime.memclrNoHeapPointers", "runtime.cmpstring", "cmpbody", "runtime.duffzero", "runtime.duffcopy")


def _build_ct(ctx, config):
    import subprocess
    tags, goarch = vlib.CONFIGS[config]
    env = dict(os.environ)
    env.update(vlib.GOENV)
    if goarch:
        env["GOARCH"] = goarch
    out = os.path.join(ctx.work, "ctprobe_" + config)
    p = subprocess.run(["go", "build", "-tags", tags, "-o", out, "./cmd/ctprobe"], cwd=vlib.HARNESS, env=env, stdout=subprocess.PIPE, stderr=subprocess.STDOUT, universal_newlines=True)
    if p.returncode != 0:
        raise Infra("ctprobe build failed (%s):\n%s" % (config, p.stdout[-3000:]))
    env2 = dict(os.environ)
    env2.update(vlib.GOENV)
    flt = os.path.join(ctx.work, "ctfilter")
    if not os.path.exists(flt):
        p = subprocess.run(["go", "build", "-o", flt, "./cmd/ctfilter"], cwd=vlib.HARNESS, env=env2, stdout=subprocess.PIPE, stderr=subprocess.STDOUT, universal_newlines=True)
        if p.returncode != 0:
            raise Infra("ctfilter build failed:\n%s" % p.stdout[-3000:])
    nm = subprocess.run(["go", "tool", "nm", "-n", "-size", out], env=env2, stdout=subprocess.PIPE, universal_newlines=True).stdout
    addr = {}
    ranges = []
    static_end = 0
    for ln in nm.splitlines():
        f = ln.split()
        if len(f) >= 4 and f[2] in ("T", "t", "D", "d", "B", "b", "R", "r"):
            try:
                static_end = max(static_end, int(f[0], 16) + int(f[1]))
            except ValueError:
                pass
        if len(f) < 4 or f[2] not in ("T", "t"):
            continue
        a, size, name = int(f[0], 16), int(f[1]), f[3]
        if name in ("main.verifMarkBegin", "main.verifMarkEnd"):
            addr[name] = f[0]
        if name.startswith(CT_CODE_PREFIXES) and size > 0:
            ranges.append((a, a + size))
    if len(addr) != 2:
        raise Infra("marker functions not found in ctprobe (%s)" % config)
    rf = out + ".ranges"
    with open(rf, "w") as fh:
        for a, b in sorted(ranges):
            fh.write("%x %x\n" % (a, b))
    static_end = (static_end + 0xffff) & ~0xffff
    if goarch == "386":     # 32-bit: the arena follows the binary; mmap'ed runtime metadata lives in the upper half
        layout = "CT_STATIC_END=%x CT_ARENA_LO=%x CT_ARENA_HI=%x" % (static_end, static_end, 0x80000000)
    else:
        layout = "CT_STATIC_END=%x CT_ARENA_LO=%x CT_ARENA_HI=%x" % (static_end, 0xc000000000, 0xd000000000)
    return out, flt, addr["main.verifMarkBegin"], addr["main.verifMarkEnd"], rf + "|" + layout


def _ct_run(args):
    import subprocess, re
    probe, flt, b, e, rf, op, secret = args
    rf, layout = rf.split("|")
    cmd = ("GOGC=off GOMAXPROCS=1 GODEBUG=asyncpreemptoff=1 setarch x86_64 -R valgrind --tool=lackey --trace-mem=yes --log-fd=9 "
           "%s %s %s 9>&1 >/dev/null 2>/dev/null | %s %s %s %s %s" % (probe, op, secret, layout, flt, b, e, rf))
    p = subprocess.run(["bash", "-c", cmd], stdout=subprocess.PIPE, stderr=subprocess.STDOUT, universal_newlines=True, timeout=600)
    m = re.search(r"records=(\d+) sha256=([0-9a-f]+)", p.stdout)
    if not m:
        return None, p.stdout[-500:]
    return (int(m.group(1)), m.group(2)), ""


@check("C20")
def c20(ctx):
    import random
    from concurrent.futures import ThreadPoolExecutor
    model_check(ctx, "CT.tla", "CT_ok.cfg")
    for neg in ("CT_negcmp.cfg", "CT_negsel.cfg"):   # the early-exit comparison and the secret-indexed lookup must be refuted
        ok, _ = model_check(ctx, "CT.tla", neg, expect_ok=False)
        if ok:
            raise Infra("model control failed: %s accepted" % neg)
    configs = ["default", "noasm", "force32bit_appengine"] if not ctx.thorough else list(vlib.CONFIGS)
    rnd = random.Random(ctx.seed)
    secrets = ["00" * 32, "ff" * 32] + ["%064x" % rnd.getrandbits(256) for _ in range(1 if not ctx.thorough else 4)]
    jobs, meta = [], []
    for cfg in configs:
        probe, flt, b, e, rf = _build_ct(ctx, cfg)
        for op, cls, shape in CT_OPS:
            ss = secrets if not op.startswith("Equal") else secrets[1:3]
            if op in ("X25519Base", "ScalarBaseMult"):
                # the scalar IS the secret here: digit patterns of the signed radix-16 recoding (zero digits, 7/8
                # boundaries with and without carries, maximal digits) reach the same fixed-base code as key generation and signing
                ss = ss + ["88" * 32, "77" * 32, "08" * 32, "f0" * 31 + "70", "0f" * 32]
            for s in ss:
                jobs.append((probe, flt, b, e, rf, op, s))
                meta.append((cfg, op, cls, shape, s))
        # determinism of the recorder: the same secret twice
        jobs.append((probe, flt, b, e, rf, "NewKeyFromSeed", secrets[0]))
        meta.append((cfg, "NewKeyFromSeed", "NewKeyFromSeed", "seed32", secrets[0] + "/repeat"))
    with ThreadPoolExecutor(max_workers=vlib.NCPU) as ex:
        res = list(ex.map(_ct_run, jobs))
    # An observation counts only if it is reproducible.  Where the executions of one public class disagree, every
    # member of the class is executed twice more (at low load) and the observation seen at least twice is used;
    # a secret whose own executions keep disagreeing means the recorder is disturbed (exit 2), not a verdict.
    by_class = {}
    for i, ((cfg, op, cls, shape, s), (ob, err)) in enumerate(zip(meta, res)):
        if ob is not None and not s.endswith("/repeat"):
            by_class.setdefault((cfg, cls, shape), []).append(i)
    retried = 0
    disagreeing = [k for k, idxs in by_class.items() if len(set(res[i][0] for i in idxs)) > 1]
    for key, idxs in by_class.items():
        if len(set(res[i][0] for i in idxs)) <= 1:
            continue
        if len(disagreeing) > 12 and disagreeing.index(key) >= 12:
            continue          # systematic disagreement: re-running everything would only cost time
        with ThreadPoolExecutor(max_workers=4) as ex:
            again = list(ex.map(_ct_run, [jobs[i] for i in idxs] * 2))
        for k, i in enumerate(idxs):
            obs = [res[i][0], again[k][0], again[k + len(idxs)][0]]
            retried += 1
            maj = [o for o in set(obs) if o is not None and obs.count(o) >= 2]
            if not maj:
                raise Infra("lackey observations of the SAME execution keep disagreeing (%s %s): %s" % (key, meta[i][4][:8], obs))
            res[i] = (maj[0], "")
    ctx.notes["lackey_reruns"] = retried
    trace = os.path.join(ctx.work, "ct.ndjson")
    first = {}
    with open(trace, "w") as f:
        n = 0
        for (cfg, op, cls, shape, s), (ob, err) in zip(meta, res):
            if ob is None:
                raise Infra("lackey run failed for %s %s: %s" % (cfg, op, err))
            if s.endswith("/repeat"):
                if first.get((cfg, op, s[:-7])) != ob:
                    ctx.notes["recorder_repeat_differs"] = ctx.notes.get("recorder_repeat_differs", 0) + 1   # handled by the re-run rule above
                continue
            first[(cfg, op, s)] = ob
            n += 1
            f.write(json.dumps({"id": n, "op": cls, "probe": op, "cfg": cfg, "shape": shape, "secret": op + ":" + s[:8], "records": ob[0], "sha": ob[1]}) + "\n")
    ctx.log("lackey: %d executions recorded on %s" % (n, ",".join(configs)))
    mism = validate_trace(ctx, "TraceCT.tla", "TraceCT.cfg", trace, shards=1, per_shard_workers=1,
                          classify=lambda ev: "%s|%s|%s" % (ev["cfg"], ev["op"], ev["shape"]))
    report_mismatches(ctx, mism)
    finish(ctx, "each secret-handling operation (NewKeyFromSeed, GenerateKey, Sign pure/ctx/ph, PrivateKey.Sign, X25519 on the base point, ScalarBaseMult, EdPrivateKeyToX25519, PrivateKey.Equal on equal / "
           "early / middle / late differing keys) executed under valgrind --tool=lackey for several secrets per public shape and configuration; the complete instruction + load/store address trace between two "
           "markers (heap/stack addresses renamed by first appearance) must be identical for all secrets of a class: validated by TraceCT.tla; R1: 2-safety of the selector / comparison leakage models by "
           "self-composition in TLC, with the early-exit comparison and the secret-indexed lookup refuted as controls",
           ["valgrind's instruction-level emulation of this CPU is the observation: micro-architectural timing is out of scope", "crypto/sha512 and the Go runtime are inside the traced window and are required to be "
            "secret-independent too (they are, on this toolchain)", "sampled secrets: all-zero, all-ones and seeded random ones"])


# ---------------------------------------------------------------- C08: all configurations observationally identical

@check("C08")
def c08(ctx):
    import zlib
    model_check(ctx, "MCRecode.tla", "MCRecode.cfg")
    cases = gen_cases(ctx, "VerifyCases", "verify_cases.ndjson")
    configs = list(vlib.CONFIGS)
    nsh = 6
    shards = [[] for _ in range(nsh)]
    n = 0
    for cfgname in configs:
        drv = build_driver(ctx, cfgname)
        trace = os.path.join(ctx.work, "transcript_%s.ndjson" % cfgname)
        out = run_driver(ctx, drv, "transcript", trace, cases=cases, config=cfgname)
        ctx.log("driver[%s]:" % cfgname, out.strip())
        for ln in open(trace):
            ev = json.loads(ln)
            if ev.get("op") == "note":
                shards[0].append(ev)
                continue
            n += 1
            ev["id"] = n
            shards[zlib.crc32(ev["key"].encode()) % nsh].append(ev)   # routing only: all observations of one input meet in one shard
    files = []
    for i, evs in enumerate(shards):
        fn = os.path.join(ctx.work, "configs.ndjson.%d" % i)
        with open(fn, "w") as f:
            for ev in evs:
                f.write(json.dumps(ev) + "\n")
        files.append(fn)
    mism = validate_trace(ctx, "TraceConfigs.tla", "TraceConfigs.cfg", "configs", presharded=files, per_shard_workers=1,
                          classify=lambda ev: "%s|%s" % (ev["cfg"], ev["key"].split("/")[0]))
    report_mismatches(ctx, mism)
    # every configuration against the specification itself (not only against each other): the numeric layers
    num_family(ctx, configs if ctx.thorough else ["noasm_appengine", "386"])
    finish(ctx, "the same seed-determined inputs (keys, signatures of 5 variant/context pairs, verdicts on a slice of the TLC-generated verification matrix incl. torsion / non-canonical / boundary cases as single calls and "
           "batch members, multi-chunk batches with bad entries, X25519 on nibble patterns and random scalars/points, key conversions, canonical outputs of the scalar / field / fixed-base layers, the complete selector "
           "table) under default, noasm, force32bit, noasm+appengine, force32bit+appengine and GOARCH=386; TraceConfigs.tla requires equal observations for equal inputs; "
           "additionally each configuration's numeric trace is validated against TraceNum.tla", ASSUME_COMMON)


# ---------------------------------------------------------------- C15: concurrency and history independence

@check("C15")
def c15(ctx):
    import subprocess
    model_check(ctx, "Conc.tla", "Conc_ok.cfg")
    ok, _ = model_check(ctx, "Conc.tla", "Conc_neg.cfg", expect_ok=False)     # a shared scratch heap must be refuted
    if ok:
        raise Infra("model control failed: Conc accepts a shared scratch heap")
    cases = gen_cases(ctx, "ConcCases", "conc_cases.ndjson")
    drv = build_driver(ctx, "default", race=True)
    trace = os.path.join(ctx.work, "conc.ndjson")
    cmd = [drv, "-prop", "C15", "-tier", ctx.tier, "-seed", str(ctx.seed), "-out", trace, "-cases", cases, "conc"]
    env = dict(os.environ)
    env["GORACE"] = "halt_on_error=0 exitcode=66 log_path=" + os.path.join(ctx.work, "race_report")
    p = subprocess.run(cmd, cwd=ctx.work, env=env, stdout=subprocess.PIPE, stderr=subprocess.STDOUT, universal_newlines=True, timeout=3000)
    import glob
    reports = glob.glob(os.path.join(ctx.work, "race_report*"))
    races = 0
    for rp in reports:
        txt = open(rp).read()
        races += txt.count("WARNING: DATA RACE")
    crash = None
    if p.returncode not in (0, 66):
        # a Go panic / fatal error: a verdict only if it happened inside the library (a crash of the harness is not)
        lib = [l for l in p.stdout.splitlines() if "github.com/oasisprotocol/ed25519" in l and "verifharness" not in l]
        if ("panic:" in p.stdout or "fatal error:" in p.stdout) and lib:
            crash = {"op": "crash", "what": "the library crashed under concurrent / sequential use (panic or fatal error with library frames on the stack)",
                     "report": p.stdout[-6000:]}
        else:
            raise Infra("conc driver failed rc=%d:\n%s" % (p.returncode, p.stdout[-3000:]))
    ctx.log("driver (race detector on):", (p.stdout.strip().splitlines()[-1] if p.stdout.strip() else "")[:200], "races reported: %d" % races)
    mism = []
    if crash:
        mism.append((crash, "CRASH"))
    if os.path.exists(trace) and os.path.getsize(trace) > 0 and not crash:
        mism += validate_trace(ctx, "TraceConc.tla", "TraceConc.cfg", trace, shards=1, per_shard_workers=1,
                               classify=lambda ev: "%s|%s" % (ev["call"].split("/")[0], ev["context"].split(":")[0]))
    if races or p.returncode == 66:
        ev = {"op": "race", "what": "the race detector reported %d data race(s) during concurrent calls" % races,
              "report": (open(reports[0]).read()[:4000] if reports else p.stdout[-4000:])}
        mism.append((ev, "DATA RACE"))
    report_mismatches(ctx, mism)
    ctx.notes["race_detector"] = {"enabled": True, "reports": races}
    finish(ctx, "alphabet of 16 operations (Verify valid/invalid/panicking, ZIP-215, Sign pure/ph, VerifyBatch 70 valid / 130 mixed with fallback / 5 ph / refused, X25519 base/generic/low-order, GenerateKey, NewKeyFromSeed, "
           "conversions): solo results, every ordered pair, seeded triples; TLC-enumerated interleavings of the chunk steps of 2-3 concurrent VerifyBatch calls (ConcCases.tla, 425 schedules, every 9th in quick) replayed "
           "on the real code with a blocking entropy reader as gate at every chunk boundary; 16 free-running goroutines under the Go race detector; every result compared with the solo result and a digest of all "
           "package-level variables compared with its initial value by TraceConc.tla", ASSUME_COMMON + ["the race detector observes only the accesses that were executed"])
