#!/usr/bin/env python3
"""Shared machinery for the /verif checks (python3 stdlib only).

A check is:  R1 model-check the family's TLA+ spec with TLC (design level, scaled
constants) -> R2 let TLC enumerate the abstract case matrix -> run the Go driver
against /repo's working tree (built with -tags verif) -> R3 validate the recorded
trace against the specification with TLC in exact arithmetic.

Exit codes: 0 property held on everything explored; 1 VIOLATION (real-code behaviour
contradicts the specification); 2 anything that is not a verdict about the code.
"""
import json, os, re, shutil, subprocess, sys, time, hashlib

VERIF = os.path.dirname(os.path.dirname(os.path.abspath(__file__)))
SPEC = os.path.join(VERIF, "spec")
HARNESS = os.path.join(VERIF, "harness")
REPO = os.environ.get("VERIF_REPO", "/repo")
CP = "/opt/veriftools/tla/tla2tools.jar:/opt/veriftools/tla/CommunityModules-deps.jar"
NCPU = os.cpu_count() or 4

GOENV = dict(GOFLAGS="-mod=mod", GOPROXY="off", GOSUMDB="off", GOTOOLCHAIN="local")

CONFIGS = {            # name -> (tags, GOARCH)
    "default":            ("verif", None),
    "noasm":              ("verif noasm", None),
    "force32bit":         ("verif force32bit", None),
    "noasm_appengine":    ("verif noasm appengine", None),
    "force32bit_appengine": ("verif force32bit appengine", None),
    "386":                ("verif", "386"),
}


class Infra(Exception):
    """Something went wrong that is not a verdict about the code (exit 2)."""


class Ctx:
    def __init__(self, prop, tier, seed):
        self.prop, self.tier, self.seed = prop, tier, seed
        self.t0 = time.time()
        self.work = os.path.join(VERIF, "work", "%s-%s" % (prop, tier))
        shutil.rmtree(self.work, ignore_errors=True)
        os.makedirs(self.work)
        self.specdir = os.path.join(self.work, "spec")
        shutil.copytree(SPEC, self.specdir)
        self.states = 0          # R1: distinct states
        self.transitions = 0     # R1: states generated
        self.mc_runs = []
        self.events = 0          # R3: events validated
        self.traces = 0
        self.violations = []     # (event, expected, got, replay path)
        self.known_hits = []
        self.samples = []
        self.notes = {}
        self.class_counts = {}
        self.selftest = int(os.environ.get("VERIF_SELFTEST", "0"))   # > 0: corrupt that many recorded results per trace and demand that each is rejected
        self.self_corrupted = 0
        self.self_missed = []

    @property
    def thorough(self):
        return self.tier == "thorough"

    def log(self, *a):
        print("[%s %s %.1fs]" % (self.prop, self.tier, time.time() - self.t0), *a, flush=True)


def _java(args, env, cwd, timeout, heap="2g", young="128m", gcthreads=4, stack="64m"):
    jtmp = os.path.join(os.path.dirname(os.path.abspath(cwd)), "jtmp")     # TLC unpacks its standard modules into java.io.tmpdir on every run
    os.makedirs(jtmp, exist_ok=True)
    cmd = ["java", "-XX:+UseParallelGC", "-XX:ParallelGCThreads=%d" % gcthreads, "-Xss" + stack,
           "-Xmx" + heap, "-Xmn" + young, "-Djava.io.tmpdir=" + jtmp, "-cp", CP, "tlc2.TLC"] + args
    e = dict(os.environ)
    e.update(env)
    e.pop("JAVA_TOOL_OPTIONS", None)
    try:
        p = subprocess.run(cmd, cwd=cwd, env=e, stdout=subprocess.PIPE, stderr=subprocess.STDOUT,
                           timeout=timeout, universal_newlines=True)
    except subprocess.TimeoutExpired:
        raise Infra("TLC timeout: " + " ".join(args))
    return p.returncode, p.stdout


_meta_n = [0]


def tlc(ctx, module, cfg, env=None, workers=None, timeout=1800, heap="2g", young="128m", extra=None):
    _meta_n[0] += 1
    meta = os.path.join(ctx.work, "meta%d_%d" % (os.getpid(), _meta_n[0]))
    args = ["-workers", str(workers or NCPU), "-metadir", meta, "-config", cfg, "-noGenerateSpecTE"] + (extra or []) + [module]
    rc, out = _java(args, env or {}, ctx.specdir, timeout, heap=heap, young=young)
    shutil.rmtree(meta, ignore_errors=True)
    return rc, out


def model_check(ctx, module, cfg, expect_ok=True, timeout=1800, workers=None, heap="3g", young="256m"):
    """R1: exhaustive model checking of a (scaled) spec instance. Returns (ok, out)."""
    t = time.time()
    rc, out = tlc(ctx, module, cfg, workers=workers, timeout=timeout, heap=heap, young=young)
    m = re.search(r"(\d+) states generated, (\d+) distinct states found, (\d+) states left", out)
    ok = "Model checking completed. No error has been found." in out
    if m is None and not expect_ok and ("is violated" in out or "is equal to FALSE" in out):     # refuted already in an initial state / constant-level invariant
        ctx.mc_runs.append(dict(module=module, cfg=cfg, generated=0, distinct=0, ok=False, wall_s=round(time.time() - t, 1)))
        ctx.log("R1 %s/%s: refuted in an initial state (control)" % (module, cfg))
        return False, out
    if m is None or (not ok and "is violated" not in out and "Deadlock" not in out):
        open(os.path.join(ctx.work, "tlc_error.txt"), "w").write(out)
        raise Infra("TLC failed on %s/%s (see %s/tlc_error.txt)\n%s" % (module, cfg, ctx.work, out[-2000:]))
    gen, dist = int(m.group(1)), int(m.group(2))
    ctx.mc_runs.append(dict(module=module, cfg=cfg, generated=gen, distinct=dist, ok=ok, wall_s=round(time.time() - t, 1)))
    if expect_ok:
        ctx.states += dist
        ctx.transitions += gen
        if not ok:
            open(os.path.join(ctx.work, "tlc_error.txt"), "w").write(out)
            raise Infra("model check of %s/%s found a counterexample on the design model (spec defect, not a code verdict)\n%s"
                        % (module, cfg, out[-3000:]))
    ctx.log("R1 %s/%s: %d distinct states, %d generated, ok=%s" % (module, cfg, dist, gen, ok))
    return ok, out


def tlaps(ctx, module, timeout=600):
    """Unbounded proofs with the TLA+ proof system (tlapm); returns (obligations, proved)."""
    try:
        p = subprocess.run(["tlapm", "--threads", "8", module], cwd=ctx.specdir, stdout=subprocess.PIPE, stderr=subprocess.STDOUT,
                           universal_newlines=True, timeout=timeout)
    except subprocess.TimeoutExpired:
        raise Infra("tlapm timeout on " + module)
    m = re.search(r"All (\d+) obligations? proved", p.stdout)
    if not m:
        raise Infra("tlapm did not prove %s:\n%s" % (module, p.stdout[-2000:]))
    n = int(m.group(1))
    ctx.notes.setdefault("tlaps", []).append({"module": module, "obligations": n, "discharged": n})
    ctx.log("TLAPS %s: all %d obligations proved" % (module, n))
    return n, n


def gen_cases(ctx, module, outname, env=None):
    """R2: let TLC evaluate a case-matrix module that writes ndjson."""
    out = os.path.join(ctx.work, outname)
    e = {"VERIF_CASES": out}
    e.update(env or {})
    cfg = os.path.join(ctx.specdir, module + ".cfg")
    if not os.path.exists(cfg):
        open(cfg, "w").write("\n")
    rc, txt = tlc(ctx, module + ".tla", module + ".cfg", env=e, workers=1, timeout=600)
    if not os.path.exists(out) or "Error" in txt:
        raise Infra("case generation failed for %s\n%s" % (module, txt[-2000:]))
    n = sum(1 for _ in open(out))
    ctx.log("R2 %s: %d abstract cases generated by TLC" % (module, n))
    ctx.notes.setdefault("abstract_cases", {})[module] = n
    return out


_built = {}


def build_driver(ctx, config="default", race=False):
    tags, goarch = CONFIGS[config]
    key = (config, race)
    if key in _built:
        return _built[key]
    out = os.path.join(ctx.work, "driver_%s%s" % (config, "_race" if race else ""))
    env = dict(os.environ)
    env.update(GOENV)
    if goarch:
        env["GOARCH"] = goarch
    if not os.path.exists(os.path.join(HARNESS, "go.sum")):
        shutil.copy(os.path.join(REPO, "go.sum"), os.path.join(HARNESS, "go.sum"))
    cmd = ["go", "build", "-tags", tags] + (["-race"] if race else []) + ["-o", out, "./cmd/driver"]
    p = subprocess.run(cmd, cwd=HARNESS, env=env, stdout=subprocess.PIPE, stderr=subprocess.STDOUT, universal_newlines=True)
    if p.returncode != 0:
        raise Infra("driver build failed (%s):\n%s" % (config, p.stdout[-4000:]))
    _built[key] = out
    return out


def run_driver(ctx, binary, family, out, cases=None, extra=None, config="default", timeout=3000, env=None):
    cmd = [binary, "-prop", ctx.prop, "-tier", ctx.tier, "-seed", str(ctx.seed), "-out", out, "-config", config]
    if cases:
        cmd += ["-cases", cases]
    cmd += (extra or []) + [family]
    e = dict(os.environ)
    e.update(env or {})
    try:
        p = subprocess.run(cmd, cwd=ctx.work, env=e, stdout=subprocess.PIPE, stderr=subprocess.STDOUT, timeout=timeout,
                           universal_newlines=True)
    except subprocess.TimeoutExpired:
        raise Infra("driver timeout: %s" % family)
    if p.returncode != 0:
        raise Infra("driver %s failed rc=%d:\n%s" % (family, p.returncode, p.stdout[-4000:]))
    return p.stdout


EV_START = re.compile(r'<<\s*"EV",')
EV_HEAD = re.compile(r'<<\s*"EV",\s*(\d+),\s*(-?\d+),\s*"(ok|MISMATCH)",\s*(.*)>>$', re.S)


def parse_ev(out):
    """Extract the <<"EV", index, id, status, detail>> tuples printed by the trace specs.
    TLC pretty-prints long values over several lines, so tuples are matched by bracket depth."""
    res = {}
    pos = 0
    while True:
        m = EV_START.search(out, pos)
        if not m:
            break
        i, depth = m.start(), 0
        j = i
        while j < len(out):
            if out.startswith("<<", j):
                depth += 1
                j += 2
                continue
            if out.startswith(">>", j):
                depth -= 1
                j += 2
                if depth == 0:
                    break
                continue
            j += 1
        txt = " ".join(out[i:j].split())
        h = EV_HEAD.match(txt)
        if h:
            res[int(h.group(1))] = (h.group(3), h.group(4).strip())
        pos = j
    return res



# ---- self-test of the binding: corrupt recorded results and demand that trace validation rejects exactly those events
CORRUPT_FIELDS = {
    "verify": ["got"], "scmin": ["got"], "smallorder": ["got"], "mul8": ["got"], "equal": ["got"],
    "sign": ["results"], "opts": ["surface"], "batch": ["result"], "obs": ["val"],
    "field": ["out", "bytes"], "scalar": ["out", "bytes", "digits", "flag"], "group": ["out", "xaddy", "matches"], "formula": ["out"],
    "decode": ["ok"], "pack": ["out"], "edpub2x": ["ok"], "x25519": ["got", "err"], "edpriv2x": ["out"],
    "api": ["outcome"], "genkey": ["consumed"], "access": ["fresh"], "call": ["res"], "heap": ["res"],
}


def _flip(v):
    """returns a value that differs from v in one place (None if v cannot be corrupted meaningfully)"""
    if isinstance(v, bool):
        return not v
    if isinstance(v, int):
        return v ^ 1
    if isinstance(v, str):
        return v + "~"
    if isinstance(v, list) and v:
        f = _flip(v[0])
        return None if f is None else [f] + v[1:]
    if isinstance(v, dict) and v:
        for k in ("sig", "ok", "valid", "result", "res", "err", "value"):
            if k in v:
                f = _flip(v[k])
                if f is not None:
                    d = dict(v)
                    d[k] = f
                    return d
    return None


def corrupt_group(ev):
    """events that the trace spec compares with EACH OTHER (the first observation of a class is remembered): a corrupted
    one may be blamed on a later, untouched member of its class"""
    if ev.get("op") == "obs":
        return "obs/" + str(ev.get("key"))
    if "sha" in ev and "shape" in ev:
        return "ct/%s/%s/%s" % (ev.get("cfg"), ev.get("op"), json.dumps(ev.get("shape"), sort_keys=True))
    return None


def corrupt_event(ev):
    fields = CORRUPT_FIELDS.get(ev.get("op"), [])
    if "sha" in ev and "shape" in ev:
        fields = ["sha"]
    for f in fields:
        if f in ev:
            nv = _flip(ev[f])
            if nv is not None:
                ev = dict(ev)
                ev[f] = nv
                return ev, f
    return None, None


def corrupt_lines(ctx, part, k, salt):
    """corrupt up to k events of a shard; returns (new lines, {1-based index: field})"""
    import random
    rnd = random.Random("%s/%s/%s" % (ctx.prop, ctx.seed, salt))
    idx = list(range(len(part)))
    rnd.shuffle(idx)
    out, done = list(part), {}
    for i in idx:
        if len(done) >= k:
            break
        ev = json.loads(part[i])
        nev, f = corrupt_event(ev)
        if nev is not None:
            out[i] = json.dumps(nev)
            done[i + 1] = f
    return out, done


def validate_trace(ctx, module, cfg, trace, shards=None, timeout=3000, per_shard_workers=3, classify=None,
                   presharded=None, countable=lambda ev: ev.get("op") not in ("entry", "note")):
    """R3: validate an ndjson trace against the TLA+ trace spec, sharded over processes.
    Every countable event must be answered by exactly one EV line.  `presharded` is a list of
    self-contained shard files written by the driver (used when events refer to each other).
    Returns the list of (event, detail) mismatches."""
    files = []
    if presharded:
        for fn in presharded:
            part = open(fn).read().splitlines()
            if part:
                files.append((fn, part))
        n = sum(len(p) for _, p in files)
    else:
        lines = open(trace).read().splitlines()
        n = len(lines)
        if n == 0:
            raise Infra("empty trace " + trace)
        shards = shards or max(1, min(NCPU // per_shard_workers, (n + 199) // 200))
        for s in range(shards):
            part = lines[s::shards]
            if not part:
                continue
            fn = "%s.shard%d" % (trace, s)
            open(fn, "w").write("\n".join(part) + "\n")
            files.append((fn, part))
    if not files:
        raise Infra("empty trace " + str(trace))
    corrupted = {}
    if ctx.selftest:
        nf = []
        per = max(1, (ctx.selftest + len(files) - 1) // len(files))
        for fn, part in files:
            npart, done = corrupt_lines(ctx, part, per, os.path.basename(fn))
            cfn = fn + ".selftest"
            open(cfn, "w").write("\n".join(npart) + "\n")
            nf.append((cfn, npart))
            corrupted[cfn] = done
            ctx.self_corrupted += len(done)
        files = nf
    from concurrent.futures import ThreadPoolExecutor
    t = time.time()

    def one(item):
        fn, part = item
        rc, out = tlc(ctx, module, cfg, env={"VERIF_TRACE": fn}, workers=per_shard_workers, timeout=timeout, heap="1g", young="48m")
        return fn, part, rc, out

    mism = []
    with ThreadPoolExecutor(max_workers=len(files)) as ex:
        results = list(ex.map(one, files))
    counted = 0
    for fn, part, rc, out in results:
        seen = parse_ev(out)
        nnotes = len(re.findall(r'<<\s*"NOTE",', out))
        if nnotes:
            ctx.notes["model_notes"] = ctx.notes.get("model_notes", 0) + nnotes    # behaviour allowed by the property but not the model's own steps
        evs = [json.loads(x) for x in part]
        want = set(i + 1 for i, ev in enumerate(evs) if countable(ev))
        complete = "Model checking completed. No error has been found." in out
        if not complete or set(seen) != want:
            open(os.path.join(ctx.work, "tlc_error.txt"), "w").write(out)
            raise Infra("trace validation did not complete for %s: %d/%d events answered (see %s/tlc_error.txt)\n%s"
                        % (fn, len(seen), len(want), ctx.work, out[-3000:]))
        counted += len(want)
        for ev in evs:       # driver notes: unexpected panics / errors of the library, broken neighbours in a batch
            if ev.get("op") == "note":
                mism.append((ev, ev.get("what", "")))
        # self-test: every corrupted result must have been rejected - as a MISMATCH, or as a NOTE where the spec compares at the
        # transcription level only, or on another member of its comparison class
        noted = set(int(x) for x in re.findall(r'<<\s*"NOTE",\s*(\d+)', out)) if corrupted.get(fn) else set()
        affected = set()
        for i, f in corrupted.get(fn, {}).items():
            grp = corrupt_group(evs[i - 1])
            members = [j for j in range(1, len(evs) + 1) if grp is not None and corrupt_group(evs[j - 1]) == grp] or [i]
            affected.update(members)
            if not any(seen.get(j, ("", ""))[0] == "MISMATCH" or j in noted for j in members):
                ctx.self_missed.append((os.path.basename(fn), i, f, evs[i - 1].get("op"), evs[i - 1].get("f", evs[i - 1].get("api", ""))))
        for i, (st, detail) in seen.items():
            if i in affected:
                continue
            ev = evs[i - 1]
            if classify:
                k = classify(ev)
                ctx.class_counts[k] = ctx.class_counts.get(k, 0) + 1
            if st == "MISMATCH":
                if "refs" in ev:   # attach the referenced entries for the replay file
                    ev = dict(ev)
                    ev["entries"] = [evs[r - 1] for r in ev["refs"] if 0 < r <= len(evs)][:300]
                mism.append((ev, detail))
        if not presharded:
            os.remove(fn)
    ctx.events += counted
    ctx.traces += 1
    ctx.log("R3 %s: %d events validated by TLC in %.1fs (%d shards), %d mismatches"
            % (os.path.basename(str(trace)), counted, time.time() - t, len(files), len(mism)))
    # samples: a few events, trimmed
    allp = [x for _, part in files for x in part]
    for ln in allp[:: max(1, len(allp) // 3)][:3]:
        ev = json.loads(ln)
        ctx.samples.append({k: (v if len(json.dumps(v)) < 400 else "...") for k, v in ev.items() if k not in ("msg", "ctx", "sig", "key")})
    return mism


def load_known():
    p = os.path.join(VERIF, "known_findings.json")
    if not os.path.exists(p):
        return []
    return json.load(open(p)).get("findings", [])


def matches_known(prop, ev, known):
    """A known finding lists field/value pairs that identify the failing input."""
    for k in known:
        if k.get("status") != "known" or k.get("property") != prop:
            continue
        if all(ev.get(f) == v for f, v in k.get("match", {}).items()):
            return k
    return None


def report_mismatches(ctx, mism, what=lambda ev: ev.get("op", "?")):
    known = load_known()
    os.makedirs(os.path.join(ctx.work, "replay"), exist_ok=True)
    for ev, detail in mism:
        k = matches_known(ctx.prop, ev, known)
        if k:
            ctx.known_hits.append(k)
            continue
        path = os.path.join(ctx.work, "replay", "violation_%d.json" % (len(ctx.violations) + 1))
        json.dump({"property": ctx.prop, "event": ev, "expected_vs_got": detail, "seed": ctx.seed, "tier": ctx.tier}, open(path, "w"), indent=1)
        ctx.violations.append((ev, detail, path))


def add_violation(ctx, ev, detail):
    report_mismatches(ctx, [(ev, detail)])


def finish(ctx, level_text_rule, assumptions, extra_cov=None):
    """Write evidence and exit."""
    seen = set()
    for k in ctx.known_hits:
        key = json.dumps(k, sort_keys=True)
        if key not in seen:
            seen.add(key)
            print("KNOWN-FINDING: property=%s %s" % (ctx.prop, k.get("text", "")))
    for ev, detail, path in ctx.violations[:50]:
        print("VIOLATION property=%s replay=%s" % (ctx.prop, path))
        print("  event: %s" % json.dumps({k: v for k, v in ev.items() if k not in ("msg", "ctx", "sig", "h")})[:600])
        print("  expected/got: %s" % detail)
    cov = {
        "states": ctx.states,
        "transitions": ctx.transitions,
        "traces_validated_against_impl": ctx.events,      # every recorded call / run of the real code is one behaviour validated by TLC
        "trace_files": ctx.traces,
        "samples": ctx.samples[:6] or [{"note": "no trace events in this run"}],
        "model_checking_runs": ctx.mc_runs,
        "rule": level_text_rule,
        "event_classes": ctx.class_counts,
        "evaluations": ctx.events,
        "distinct_nontrivial": len(ctx.class_counts),
    }
    cov.update(ctx.notes)
    cov.update(extra_cov or {})
    ev = {
        "property_id": ctx.prop, "tier": ctx.tier, "seed": ctx.seed, "level": "model_checking",
        "coverage": cov, "assumptions": assumptions, "wall_s": round(time.time() - ctx.t0, 1),
        "violations": len(ctx.violations),
    }
    if ctx.selftest:
        print("SELFTEST property=%s corrupted=%d rejected=%d" % (ctx.prop, ctx.self_corrupted, ctx.self_corrupted - len(ctx.self_missed)))
        for m in ctx.self_missed[:20]:
            print("  SELFTEST-MISS %s event %d field %s (%s %s)" % m)
        sys.exit(1 if ctx.violations else (2 if ctx.self_missed or ctx.self_corrupted == 0 else 0))
    os.makedirs(os.path.join(VERIF, "evidence"), exist_ok=True)
    json.dump(ev, open(os.path.join(VERIF, "evidence", ctx.prop + ".json"), "w"), indent=1)
    ctx.log("done: states=%d events=%d violations=%d known=%d" % (ctx.states, ctx.events, len(ctx.violations), len(ctx.known_hits)))
    sys.exit(1 if ctx.violations else 0)
