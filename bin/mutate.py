#!/usr/bin/env python3
"""bin/mutate.py [-n N] [-j J] [-seed S] [-files glob,...]

Automatic first-order mutation of oasislabs/ed25519 (syntactic operators on single lines), used to look
for blind spots of the checks beyond the hand-written seeded changes:

  1. a mutant is generated in a scratch worktree of /repo (never in /repo itself),
  2. it must build in every configuration and pass the repository's own tests (otherwise it is discarded:
     the existing suite already sees it),
  3. the quick checks of the properties anchored in the mutated file are run against it (bin/seedtest),
  4. the outcome is appended to work/mutants/results.ndjson; surviving mutants (no check fails) are either
     equivalent to the original or blind spots - they are listed for triage.
"""
import argparse, glob, json, os, random, re, subprocess, sys, time
from concurrent.futures import ThreadPoolExecutor

V = os.path.dirname(os.path.dirname(os.path.abspath(__file__)))
OUT = os.path.join(V, "work", "mutants")
ENV = dict(os.environ, GOFLAGS="-mod=mod", GOPROXY="off", GOSUMDB="off", GOTOOLCHAIN="local")

FILES = ["ed25519.go", "batch_verify.go", "extra/x25519/x25519.go", "internal/ge25519/ge25519.go", "internal/ge25519/cofactor_equal.go",
         "internal/ge25519/scalarmult_base_choose_niels_ref.go", "internal/ge25519/scalarmult_base_choose_niels_amd64.go",
         "internal/ge25519/movecond_slow.go", "internal/ge25519/movecond_unsafe.go",
         "internal/modm/modm_64bit.go", "internal/modm/modm_32bit.go",
         "internal/curve25519/curve25519_donna_64bit.go", "internal/curve25519/curve25519_donna_32bit.go", "internal/curve25519/helpers.go"]

# which quick checks look at a file (from the anchors of properties.jsonl, kept short: the most specific ones)
PROPS = {
    "ed25519.go": ["C01", "C02", "C04", "C07", "C13", "C14"],
    "batch_verify.go": ["C06", "C17", "C13"],
    "extra/x25519/x25519.go": ["C11", "C12", "C13"],
    "internal/ge25519/ge25519.go": ["C10", "C16", "C01"],
    "internal/ge25519/cofactor_equal.go": ["C01", "C09"],
    "internal/ge25519/scalarmult_base_choose_niels_ref.go": ["C16", "C08"],
    "internal/ge25519/scalarmult_base_choose_niels_amd64.go": ["C16", "C02"],
    "internal/ge25519/movecond_slow.go": ["C08", "C16"],
    "internal/ge25519/movecond_unsafe.go": ["C16", "C08"],
    "internal/modm/modm_64bit.go": ["C19", "C17"],
    "internal/modm/modm_32bit.go": ["C19", "C08"],
    "internal/curve25519/curve25519_donna_64bit.go": ["C18"],
    "internal/curve25519/curve25519_donna_32bit.go": ["C18", "C08"],
    "internal/curve25519/helpers.go": ["C18", "C10"],
}

OPS = [
    ("<=", "<"), ("<", "<="), (">=", ">"), (">", ">="), ("==", "!="), ("!=", "=="),
    (" + ", " - "), (" - ", " + "), ("+=", "-="), ("-=", "+="), (" & ", " | "), (" | ", " & "), (">>", "<<"), ("<<", ">>"),
    ("break", "continue"), ("continue", "break"), ("&&", "||"), ("||", "&&"), ("true", "false"), ("false", "true"),
]


def mutations_of(line, rnd):
    """all single mutations of a source line (text, description)"""
    out = []
    code = line.split("//")[0]
    if not code.strip() or code.strip().startswith(("import", "package", "func ", "}", "{", "case", "default", "var (", "const (", ")")):
        if not code.strip().startswith(("case",)):
            return out
    for a, b in OPS:
        for m in re.finditer(re.escape(a), code):
            if a in ("<", ">") and (code[m.end():m.end() + 1] in "=<>-" or code[m.start() - 1:m.start()] in "<>-"):
                continue
            if a in ("true", "false", "break", "continue") and (code[m.start() - 1:m.start()].isalnum() or code[m.end():m.end() + 1].isalnum()):
                continue
            out.append((line[:m.start()] + b + line[m.end():], "%s -> %s" % (a.strip(), b.strip())))
    for m in re.finditer(r"(?<![\w.x])(\d{1,3})(?![\w.x])", code):
        v = int(m.group(1))
        for nv in (v + 1, v - 1):
            if nv >= 0:
                out.append((line[:m.start()] + str(nv) + line[m.end():], "%d -> %d" % (v, nv)))
    for m in re.finditer(r"0x[0-9a-fA-F]+", code):
        v = int(m.group(0), 16)
        bit = rnd.randrange(max(1, v.bit_length()))
        out.append((line[:m.start()] + hex(v ^ (1 << bit)) + line[m.end():], "%s: flip bit %d" % (m.group(0), bit)))
    s = code.strip()
    if re.match(r"^[\w\[\]\.\*&, ]+(\+=|-=|\|=|&=|=|:=)[^=].*$", s) or re.match(r"^[\w\.]+\(.*\)$", s):
        if not s.startswith(("return", "if", "for", "switch", "defer", "go ")) and ":=" not in s:
            out.append((line[:len(line) - len(line.lstrip())] + "_ = 0 // deleted: " + s.replace("/*", "").replace("*/", ""), "delete statement"))
    return out


def sh(cmd, cwd, timeout=900):
    p = subprocess.run(cmd, shell=True, cwd=cwd, env=ENV, stdout=subprocess.PIPE, stderr=subprocess.STDOUT, universal_newlines=True, timeout=timeout)
    return p.returncode, p.stdout


def worker(args):
    wid, jobs = args
    wt = "/tmp/mutwt_%d" % wid
    sh("git -C /repo worktree remove --force %s" % wt, "/tmp")
    rc, out = sh("git -C /repo worktree add -q --detach %s HEAD" % wt, "/tmp")
    results = []
    for (mid, f, lineno, newline, desc) in jobs:
        path = os.path.join(wt, f)
        src = open(path).read().split("\n")
        old = src[lineno]
        src[lineno] = newline
        open(path, "w").write("\n".join(src))
        rec = {"id": mid, "file": f, "line": lineno + 1, "old": old.strip(), "new": newline.strip(), "op": desc}
        try:
            rc, out = sh("gofmt -l %s >/dev/null && go build ./... && go build -tags verif ./... && go build -tags 'verif force32bit' ./... && go build -tags 'verif noasm appengine' ./..." % f, wt)
            if rc != 0:
                rec["status"] = "does not build"
            else:
                tags = "-tags force32bit" if "32bit" in f else ("-tags noasm" if "_ref" in f or "movecond" in f else "")
                rc, out = sh("go test -vet=off -count=1 ./... && go test -vet=off -count=1 %s ./..." % tags, wt, timeout=600)
                if rc != 0:
                    rec["status"] = "killed by the repository's tests"
                else:
                    patch = os.path.join(OUT, "%s.diff" % mid)
                    rc, diff = sh("git diff", wt)
                    open(patch, "w").write(diff)
                    det = []
                    for prop in PROPS.get(f, []):
                        rc, o = sh("%s/bin/seedtest %s %s" % (V, patch, prop), V, timeout=3000)
                        m = re.search(r"rc=(\d) violations=(\d+)", o)
                        det.append({"prop": prop, "rc": int(m.group(1)) if m else -1, "violations": int(m.group(2)) if m else -1})
                        if m and m.group(1) == "1":
                            break
                    rec["checks"] = det
                    rec["status"] = "caught" if any(d["rc"] == 1 for d in det) else ("infra" if any(d["rc"] == 2 for d in det) else "SURVIVED")
        except subprocess.TimeoutExpired:
            rec["status"] = "timeout (non-terminating mutant)"
        finally:
            sh("git checkout -- .", wt)
        with open(os.path.join(OUT, "results.ndjson"), "a") as fh:
            fh.write(json.dumps(rec) + "\n")
        print("MUTANT %s %s:%d [%s] %s" % (mid, f, lineno + 1, desc, rec["status"]), flush=True)
        results.append(rec)
    sh("git -C /repo worktree remove --force %s" % wt, "/tmp")
    return results


def main():
    ap = argparse.ArgumentParser()
    ap.add_argument("-n", type=int, default=60)
    ap.add_argument("-j", type=int, default=3)
    ap.add_argument("-seed", type=int, default=1)
    ap.add_argument("-files", default="")
    a = ap.parse_args()
    os.makedirs(OUT, exist_ok=True)
    rnd = random.Random(a.seed)
    files = [f for f in FILES if not a.files or any(x in f for x in a.files.split(","))]
    cands = []
    for f in files:
        lines = open(os.path.join("/repo", f)).read().split("\n")
        infunc = False
        for i, ln in enumerate(lines):
            if ln.startswith("func "):
                infunc = True
            if not infunc or "verif" in ln:
                continue
            for newline, desc in mutations_of(ln, rnd):
                if newline != ln:
                    cands.append((f, i, newline, desc))
    rnd.shuffle(cands)
    # spread over files: round-robin by file
    byf = {}
    for c in cands:
        byf.setdefault(c[0], []).append(c)
    picked = []
    while len(picked) < a.n and any(byf.values()):
        for f in list(byf):
            if byf[f] and len(picked) < a.n:
                picked.append(byf[f].pop())
    jobs = [("s%d_%03d" % (a.seed, k), f, i, nl, d) for k, (f, i, nl, d) in enumerate(picked)]
    parts = [(w, jobs[w::a.j]) for w in range(a.j)]
    with ThreadPoolExecutor(max_workers=a.j) as ex:
        res = [r for rs in ex.map(worker, parts) for r in rs]
    from collections import Counter
    print(Counter(r["status"] for r in res))
    for r in res:
        if r["status"] == "SURVIVED":
            print("SURVIVED", r["id"], r["file"], r["line"], r["op"], "|", r["old"], "=>", r["new"])


if __name__ == "__main__":
    main()
