"""bin/check <prop> --replay <violation.json>

A violation file holds the failing event (concrete bytes of every argument, the abstract
coordinates, expected vs got) plus the seed and tier of the run that produced it.  Drivers are
deterministic in (seed, tier, /repo tree), so the replay re-runs that check and reports whether the
same event class fails again; verify-type events are additionally re-executed directly."""
import json, os, subprocess, sys

V = os.path.dirname(os.path.dirname(os.path.abspath(__file__)))


def run(prop, path):
    v = json.load(open(path))
    ev = v.get("event", {})
    print("replaying %s: seed=%s tier=%s op=%s" % (path, v.get("seed"), v.get("tier"), ev.get("op")))
    print("recorded expected/got:", v.get("expected_vs_got"))
    env = dict(os.environ)
    env["VERIF_SEED"] = str(v.get("seed", 1))
    p = subprocess.run([os.path.join(V, "bin", "check"), prop, v.get("tier", "quick")], env=env, stdout=subprocess.PIPE,
                       stderr=subprocess.STDOUT, universal_newlines=True)
    lines = [l for l in p.stdout.splitlines() if l.startswith("VIOLATION") or l.startswith("KNOWN-FINDING") or "done:" in l]
    print("\n".join(lines[:20]))
    print("replay exit code:", p.returncode)
    return p.returncode
