#!/usr/bin/env python3
"""Regenerates MANIFEST.json from the table below (keeps it schema-valid)."""
import json, os, subprocess
V = os.path.dirname(os.path.dirname(os.path.abspath(__file__)))

TRUST = ("TLC's evaluation of the TLA+ definitions; crypto/sha512; harness/refmodel (math/big) as projection between bytes and abstract "
         "coordinates; observed executions only (sampling with an exact oracle), design level exhaustive only at the scaled constants")

CHECKS = {
 "C01": ("4 C01", "R1 exhaustive TLC model check of the verify pipeline against the declarative cofactored predicate on the scaled group Z_17 x Z_8; CofactorEqual / geSub / CofactorMultiply as formulas on every pair of points of a small curve (MCGroupLaw); "
         "R2 TLC-enumerated case matrix (23 x 23 point kinds x S rules x variants x lengths + bit perturbations) replayed on the real Verify/VerifyWithOptions/VerifyBatch; "
         "R3 every call validated by TLC against Verify.tla in exact 253/512-bit arithmetic"),
 "C02": ("4 C02", "R1: TLC checks the option table and the dom2 layout (injective, prefix-free) exhaustively over a small alphabet; R3: every key derivation / signature of the driver "
         "(special and random seeds x 10 variant/context pairs x message lengths, every entry point twice, counting entropy reader) validated by TLC against SignSpec.tla in exact "
         "arithmetic: clamp, r and k reductions mod L, S = (r + k a) mod L, dom2 bytes, determinism, entropy untouched, equality with crypto/ed25519"),
 "C03": ("4 C03", "R1: HonestAccepted invariant (S = r + h a accepted in both modes for a, r != 0) on the scaled group; R3: every produced signature verified by Verify / VerifyWithOptions "
         "(default, ZIP-215) / VerifyBatch membership (sizes 1,3,4,5,64,65,129, all positions), verdicts validated by TLC through the Verify pipeline; S < L, a != 0, r != 0 required per signature"),
 "C07": ("4 C07", "R1: dom2 injectivity / prefix-freeness and the context-length / digest-length / hash-selector outcome table checked by TLC; MCDom2: the whole hashed transcript has a left inverse (variant, context, R, A, message) on every "
         "scaled tuple, given that R is never the dom2 prefix - and the real 32-byte prefix is not a decodable point (certificate checked by TLC in exact arithmetic); control refuted; R2/R3: ordered pairs of 14 (variant, context) pairs "
         "(1-bit, length-only, trailing-zero, 254/255, cross-variant differences) signed under one and verified under the other (single, ZIP-215, batch), verdict computed by TLC from the verifier-side hash; "
         "option matrix replayed on Sign / VerifyWithOptions / VerifyBatch with refusal surface and selected variant validated against SignSpec!Outcome / Surface"),
 "C04": ("4 C04", "R1: scMinimal ladder == (S<L) for all scaled scalars + uniqueness of accepted S (and the typo mask 244 is refuted by TLC as a control); "
         "R2/R3: boundary family (S in {0,1,2^252-1,2^252,2^252+1,L-1,L,L+1,2^253-1,...}) made accepting through small-order keys in ZIP-215 mode, S+kL, bit flips, in all four verifier modes, "
         "plus direct conformance of scMinimal on a boundary-dense set; all verdicts decided by TLC with BigNat comparison against L"),
 "C05": ("4 C05", "R1: ZIP-215 predicate vs pipeline, monotonicity Accept(default)=>Accept(zip) and 'differ only on small order' as TLC invariants; "
         "R2/R3: full 14x14 small-order product, mixed small/honest cases, S boundaries, non-canonical encodings, all variants, single and batch, each verdict validated by TLC"),
 "C06": ("4 C06", "R1: exhaustive TLC model check of the VerifyBatch state machine (MinBatch=2, MaxBatch=3, 11 entry kinds, all sequences up to length 4 resp. 6, both modes, entropy failure "
         "at any chunk): per-entry result = single verification, summary = conjunction, indices in range, fallback justified; R2: TLC-generated batch matrix (sizes x chunk positions x 20 badness kinds x "
         "options); R3: every real call replayed by TLC through the same state machine with the real constants, binding the hook events recorded at the code's linearization points, the result vector "
         "and the real single verifier; chunk equation predicted exactly from the logged randomisers"),
 "C10": ("4 C10", "R1: the decoding algorithm (candidate root, two root checks, sqrt(-1), parity fix-up) == the lenient rule, exhaustively for every y and sign over 19 small fields with p = 5 mod 8 (TLC); "
         "R3: decode / pack events of the real code validated by TLC in exact arithmetic (Edwards.tla): squareness by checked witness, decoded coordinates on the curve with the right parity, "
         "canonical encoding from four internal representations incl. unreduced limbs; projection audited by bit-by-bit scalar multiplication in TLA+"),
 "C11": ("4 C11", "R3: X25519 events (fast base-point path, generic path, array API; nibble-pattern / unclamped / boundary / random scalars; curve, twist, low-order, non-canonical points; bad lengths) "
         "validated by TLC: result = RFC 7748 value, fast path = ladder, error iff bad length or all-zero result; the ladder itself is replayed step by step in TLA+ (Edwards.tla LadderOne) on a seeded sample; "
         "R1: error/path table; MCMontgomery (TLC, exhaustive over small curves of edwards25519's shape): ladder(k, u(P)) = u([k]P) for every point and scalar (fast path = ladder, conversions commute), "
         "ladder(a, ladder(b, u)) = ladder(b, ladder(a, u)) for every field element, low-order inputs give 0; two refuted controls"),
 "C12": ("4 C12", "R1: u = (1+y)/(1-y) lands on the Montgomery curve and the decode algorithm is exact, over small fields (TLC); R3: EdPublicKeyToX25519 on the structured decode inputs (flag by checked witness, "
         "value by inverse witness, y = 1 -> 0), EdPrivateKeyToX25519 = clamp of SHA-512 prefix, commutation with X25519 on the base point; exact arithmetic in TLC"),
 "C13": ("4 C13", "R1: option table by TLC; R2: TLC enumerates the argument-shape matrix (function x lengths incl. nil x option classes x aliasing); R3: every shape replayed on the real API under recover "
         "with sentinel-filled spare capacity and overlapping arguments; outcome class and frame condition validated by TLC against Api.tla; malformed batch entries at every position through Batch.tla"),
 "C14": ("4 C14", "R3: GenerateKey on exact / long / chunked / short / failing / nil readers (bytes consumed, error propagation, coherence with NewKeyFromSeed and crypto/ed25519), accessor freshness by mutation, "
         "Equal over every single-byte difference, length differences and foreign types; each event validated by TLC against Api.tla (GenKeyExpected, EqualExpected)"),
 "C16": ("4 C16", "R1: the recodings reconstruct every scaled scalar with digits in range (TLC, exhaustive over 16 bits); the point formulas of ge25519.go on every pair of points (all orders, several scalings) of small curves of "
         "edwards25519's shape, ScalarmultBaseNiels for every scalar and DoubleScalarmultVartime for every point and scalar pair at the scaled size (MCGroupLaw, with four refuted controls); R2: complete enumeration of the selector domain 32 x 17 on every backend; "
         "R3: selector entries (niels relation), fixed-base and double-base results validated by TLC in exact arithmetic against the Z_L x Z_8 coordinates; every point formula called with recorded coordinates - right point (verdict) and "
         "coordinate-for-coordinate equality with the transcribed formula over the real field (GroupFormulasBig; NOTE) - which binds MCGroupLaw to the code; projection audited bit by bit in TLA+"),
 "C18": ("4 C18", "R3 (sampling with an exact oracle): every field operation of both limb layouts on limb-boundary inputs and on the operand classes the group law produces; TLC computes the represented integers "
         "(and, with FieldLimbsBig, predicts the result limb for limb from the limb-level transcription at the real widths - the binding of the scaled R1 models to the code) "
         "from the limbs and checks the residue identity, canonical serialisation, parsing and conditional swap in BigNat arithmetic; R1 (TLC, exhaustive at scaled sizes): limb-level transcriptions of both layouts "
         "(FieldLimbs: 5x51 at 3x3 bits; FieldLimbs32: 10x25.5 at 4 and 6 alternating limbs incl. Mul's in-place doubling and Sub's partial carry) - exact residues, no underflow, canonical Contract for every representation, "
         "with refuted controls; FieldSquare: the squaring routines term by term at 5 / 10 limbs (Square and SquareTimes of the 64-bit file have different carry schemes), every reduced operand; FieldBounds32 / FieldBounds51: interval analysis at the real limb sizes of every point formula on both layouts (no uint32 / uint64 wrap, no underflow; controls refuted); decode algorithm over small fields"),
 "C19": ("4 C19", "R1 (TLC, exhaustive at scaled sizes): recodings; Barrett reduction abstractly (two conditional subtractions suffice) and limb by limb (ModmLimbs: truncated q2 product, shift/mask cuts, borrow chains, "
         "Mul's q1/r1 split, Add) for every double-length input and every pair of reduced scalars, with refuted controls; the same transcription at the real sizes (ModmLimbsBig) predicts barrettReduce limb for limb on independent q1 / r1 (binding); R3 (sampling with an exact oracle): reduction of 0..64-byte strings at every quotient size and boundary, Add/Mul/Contract/reduce, both recodings "
         "(digit sum = value, digit ranges, digit-for-digit equality with the TLA+ transcription), vartime helpers; both limb layouts; all identities evaluated by TLC in BigNat"),
 "C17": ("4 C17", "R1: exhaustive TLC model check of the Bos-Coster heap algorithm (2-bit limbs, formal points): sum preserved at every step, truncated comparisons exact, heap order, result exact unless "
         "flagged design-inexact; R3: every iteration of the real multiScalarmultVartime (heap hook) replayed by TLC on the real 253-bit scalars, result compared with the exact sum; "
         "all-valid batches of all sizes must show Equation(1) and no Fallback event in every chunk (hook trace validated through Batch.tla)"),
 "C08": ("4 C08", "R3: the same seed-determined inputs are run under all six build configurations (default/asm, noasm, force32bit, noasm+appengine, force32bit+appengine, GOARCH=386); TraceConfigs.tla (a state machine "
         "that remembers the observation of every input) requires byte-identical keys, signatures, verdict vectors, batch results, X25519 outputs, conversions and canonical internal outputs; the numeric trace of "
         "further configurations is validated against TraceNum.tla; R1: recodings exhaustive at scaled size"),
 "C15": ("4 C15", "R1: TLC explores every interleaving of 3 clients x 3 chunk steps of Conc.tla: package-level variables never written, every call returns its solo result (a shared scratch heap is refuted as control); "
         "R2: all interleavings of the chunk steps of concurrent VerifyBatch calls enumerated by TLC and replayed on the real code with a blocking entropy reader as gate; R3: ordered pairs / triples of a 16-operation "
         "alphabet and 16 free-running goroutines under the race detector, every result and a digest of all package-level variables validated by TraceConc.tla"),
 "C09": ("4 C09", "R1: SmallOrder(P) <=> k=0 in Z_L x Z_8 drives the pipeline; IsNeutral([8]P) <=> order divides 8 for every point and scaling of a small curve (MCGroupLaw); R2/R3: the 14 torsion encodings (positive) and [k]B+T_t for all t, non-canonical y+p, small k (negative) "
         "as key and as R through single/batch verification and directly through isSmallOrderVartime, validated by TLC"),
 "C20": ("4 C20", "R1: non-interference of the leakage models of the selector / recoding loop / comparison as a 2-safety property, decided by TLC through self-composition over all pairs of secrets "
         "(early-exit comparison and secret-indexed lookup refuted as controls); R3: machine-level instruction + load/store address traces (valgrind lackey, cut between two markers, restricted to the code of "
         "the library and of the primitives it applies to data) of every secret-handling operation for several secrets per public shape and build configuration; TraceCT.tla requires the observation to be a "
         "function of (configuration, operation, public shape)"),
}

def main():
    checks = []
    for pid, (ref, text) in sorted(CHECKS.items()):
        checks.append({
            "property_id": pid,
            "quick_cmd": "bin/check %s quick" % pid,
            "thorough_cmd": "bin/check %s thorough" % pid,
            "evidence_file": "/verif/evidence/%s.json" % pid,
            "replay_cmd_template": "bin/check %s --replay {path}" % pid,
            "engine": "tlc-trace-validation" if pid != "C20" else "tlc-trace-validation+lackey",
            "level_claimed": {"category": "model_checking", "text": text, "design_ref": "DESIGN.md section " + ref},
            "level_note": TRUST,
            "technique": "TLA+ specification model-checked with TLC (scaled constants) + TLC-generated case matrix replayed on the real code + TLC trace validation in exact arithmetic",
        })
    props = [json.loads(l)["id"] for l in open(os.path.join(V, "properties.jsonl"))]
    na = [{"property_id": p, "reason": "check under construction in this round (see DESIGN.md section 8 build order); not yet claimed"}
          for p in props if p not in CHECKS]
    hooks = subprocess.run(["git", "-C", "/repo", "log", "--format=%H", "--grep=^verif:"], stdout=subprocess.PIPE, universal_newlines=True).stdout.split()
    m = {
        "version": 1,
        "setup_cmd": "bin/setup",
        "hooks": {
            "guard": "verif",
            "enable": "go build -tags verif (harness module github.com/oasisprotocol/ed25519/verifharness with replace => /repo)",
            "baseline_off_cmd": "cd /repo && go test -vet=off -count=1 -timeout 25m ./...",
            "source_commits": hooks,
            "add_only": True,
        },
        "engines": [
            {"name": "tlc-trace-validation", "path": "bin/check", "serves_properties": sorted(CHECKS),
             "kind_free_text": "TLA+ specs in spec/ (BigNat exact arithmetic, family specs, trace specs); TLC model checking + case generation + trace validation; Go conformance drivers in harness/"},
        ],
        "checks": checks,
        "not_applicable": na,
        "notes": "See DESIGN.md. Exit 2 from a check means an infrastructure problem (no verdict). `bin/check <id> selftest` runs the quick tier on traces in which recorded results were corrupted and demands that each corruption is rejected (no evidence written). Seeded changes and which check catches each: seeded/ and DESIGN.md section 10; genuine defects found and repaired: known_findings.json and DESIGN.md section 5.",
    }
    json.dump(m, open(os.path.join(V, "MANIFEST.json"), "w"), indent=1)

main()
